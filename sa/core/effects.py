"""Effect extraction by local value numbering along each path of loop-free handler code.

PyExtractor works on Python `ast` closures (after slot instantiation: parameters bound to constants),
CExtractor on clang JSON function bodies (reduced by cfacts).  Both produce `Path` objects over the
term language of core/terms.py, so the same rules apply to all four simulator implementations."""
import ast
from .terms import C, isc, mk, mk_bool, mk_not, mk_bop, mk_ite, mk_idx, mk_sel, post, key, walk

class Unsupported(Exception):
    """The handler uses a construct the extractor does not model (reported as ANALYSIS-LIMIT, never a violation)."""

class Path:
    __slots__ = ('env', 'regs', 'mw', 'guards', 'epoch', 'events', 'ncont', 'ret', 'ncall', 'done', 'paged')
    def __init__(self):
        self.env = {}
        self.regs = {}
        self.mw = []        # (addr term, value term, guards tuple at the store, line)
        self.guards = []
        self.epoch = 0
        self.events = []    # ('contend', t_in, pattern, line) / ('out', tracer, args, line) / ('page', value, line) ...
        self.ncont = 0
        self.ncall = 0
        self.ret = None
        self.done = False
        self.paged = 0      # 1000 once a port write that can page memory has happened: later reads may see another bank

    def fork(self):
        p = Path()
        p.env = dict(self.env); p.regs = dict(self.regs); p.mw = list(self.mw)
        p.guards = list(self.guards); p.epoch = self.epoch; p.events = list(self.events)
        p.ncont = self.ncont; p.ncall = self.ncall; p.ret = self.ret; p.done = self.done; p.paged = self.paged
        return p

    def reg(self, k):
        return self.regs.get(k, ('reg', k))

MAXPATHS = 4096

def pattern_dursum(pattern, ioc_total=4):
    tot = C(0)
    for e in pattern:
        if e[0] == 'ioc':
            tot = mk('+', tot, C(ioc_total))
        else:
            tot = mk('+', tot, e[2])
    return tot

def pattern_norm(pattern):
    """Normal form of a contention pattern for comparison: the final duration is dropped
    (it is never read after the last delay lookup)."""
    out = []
    for i, e in enumerate(pattern):
        if e[0] == 'ioc':
            out.append(e)
        elif i == len(pattern) - 1:
            out.append(('pe', e[1], ('c', -1)))
        else:
            out.append(e)
    return ('pat',) + tuple(out)

class Base:
    def contend_call(self, p, t_in, pattern, line):
        """Model delay = contend(t_in, pattern): returns (delay term, t_out term)."""
        d = ('contend', t_in, pattern_norm(pattern))
        p.events.append(('contend', t_in, tuple(pattern), tuple(p.guards), line))
        p.ncont += 1
        t_out = mk('+', t_in, d, pattern_dursum(pattern))
        return d, t_out

    def branch(self, p, cond, run_then, run_else):
        cond = mk_bool(post(cond))
        if isc(cond):
            return run_then(p) if cond[1] else run_else(p)
        a = p.fork(); a.guards.append(cond)
        b = p.fork(); b.guards.append(mk_not(cond))
        out = []
        if not _contradictory(a.guards):
            out.extend(run_then(a))
        if not _contradictory(b.guards):
            out.extend(run_else(b))
        if len(out) > MAXPATHS:
            raise Unsupported('path explosion')
        return out

def _contradictory(guards):
    g = guards[-1]
    ng = mk_not(g)
    if ng in guards[:-1]:
        return True
    # x == c1 together with x == c2 ; x == c with x != c handled by mk_not above
    if g[0] == '==' and isc(g[2]):
        for h in guards[:-1]:
            if h[0] == '==' and h[1] == g[1] and isc(h[2]) and h[2] != g[2]:
                return True
    return False

# ------------------------------------------------------------------------------------------------ Python

_BINOPS = {ast.Add: '+', ast.Sub: '-', ast.Mult: '*', ast.Mod: '%', ast.FloorDiv: '//', ast.BitAnd: '&',
           ast.BitOr: '|', ast.BitXor: '^', ast.LShift: '<<', ast.RShift: '>>'}
_CMPOPS = {ast.Gt: '>', ast.Lt: '<', ast.Eq: '==', ast.NotEq: '!=', ast.GtE: '>=', ast.LtE: '<='}

class PyExtractor(Base):
    """params: name -> term for the factory parameters of this slot.
    consts: module-level integer constants visible in the closure (simutils indices)."""
    def __init__(self, params, consts=None, tables=(), selfattrs=None, inner_funcs=None):
        self.params = params
        self.consts = consts or {}
        self.tables = set(tables) | {'R1', 'R2', 'OFFSETS', 'JR_OFFSETS'}
        self.selfattrs = selfattrs or {}
        self.inner_funcs = inner_funcs or {}   # local name -> (FunctionDef of closure, params) for djnz()/ldi() calls
        self.regname = 'registers'
        self.memname = 'memory'

    # -- expressions
    def ev(self, p, e):
        if isinstance(e, ast.Constant):
            if isinstance(e.value, bool):
                return C(int(e.value))
            if isinstance(e.value, int):
                return C(e.value)
            raise Unsupported('constant %r' % (e.value,))
        if isinstance(e, ast.Name):
            if e.id in p.env:
                return p.env[e.id]
            if e.id in self.params:
                return self.params[e.id]
            if e.id in self.consts:
                return C(self.consts[e.id])
            if e.id in self.tables:
                return ('T', e.id)
            if e.id in ('True', 'False'):
                return C(int(e.id == 'True'))
            raise Unsupported('name ' + e.id)
        if isinstance(e, ast.BinOp):
            if type(e.op) not in _BINOPS:
                raise Unsupported('binop ' + type(e.op).__name__)
            return mk(_BINOPS[type(e.op)], self.ev(p, e.left), self.ev(p, e.right))
        if isinstance(e, ast.UnaryOp):
            if isinstance(e.op, ast.USub):
                return mk('*', self.ev(p, e.operand), C(-1))
            if isinstance(e.op, ast.Not):
                return mk_not(self.ev(p, e.operand))
            raise Unsupported('unary')
        if isinstance(e, ast.Compare):
            terms = [self.ev(p, x) for x in [e.left] + e.comparators]
            cs = []
            for o, a, b in zip(e.ops, terms, terms[1:]):
                if type(o) not in _CMPOPS:
                    if isinstance(o, ast.In) and b[0] == 'tuple':
                        cs.append(mk_bop('or', [mk('==', a, x) for x in b[1:]]))
                        continue
                    raise Unsupported('cmp ' + type(o).__name__)
                cs.append(mk(_CMPOPS[type(o)], a, b))
            return cs[0] if len(cs) == 1 else mk_bop('and', cs)
        if isinstance(e, ast.BoolOp):
            return mk_bop('and' if isinstance(e.op, ast.And) else 'or', [self.ev(p, x) for x in e.values])
        if isinstance(e, ast.IfExp):
            return mk_ite(self.ev(p, e.test), self.ev(p, e.body), self.ev(p, e.orelse))
        if isinstance(e, ast.Subscript):
            chain = []
            b = e
            while isinstance(b, ast.Subscript):
                chain.append(b.slice)
                b = b.value
            chain.reverse()
            if isinstance(b, ast.Name) and b.id == self.regname and b.id not in p.env:
                s0 = chain[0]
                if isinstance(s0, ast.Slice):
                    lo = self._ci(p, s0.lower, 0)
                    hi = self._ci(p, s0.upper, None)
                    if hi is None:
                        raise Unsupported('open register slice')
                    base = ('tuple',) + tuple(p.reg(k) for k in range(lo, hi))
                else:
                    k = self.ev(p, s0)
                    if not isc(k):
                        raise Unsupported('non-constant register index')
                    base = p.reg(k[1])
                chain = chain[1:]
            elif isinstance(b, ast.Name) and b.id == self.memname and b.id not in p.env:
                base = ('mem', self.ev(p, chain[0]), p.epoch + p.paged)
                chain = chain[1:]
            else:
                base = self.ev(p, b)
            for c in chain:
                if isinstance(c, ast.Slice):
                    raise Unsupported('slice of value')
                base = mk_idx(base, self.ev(p, c))
            return base
        if isinstance(e, ast.Tuple):
            out = []
            for x in e.elts:
                if isinstance(x, ast.Starred):
                    v = self.ev(p, x.value)
                    if v[0] == 'tuple':
                        out.extend(v[1:])
                    else:
                        out.append(('star', v))
                else:
                    out.append(self.ev(p, x))
            return ('tuple',) + tuple(out)
        if isinstance(e, ast.Attribute):
            if isinstance(e.value, ast.Name) and e.value.id == 'self':
                if e.attr in self.selfattrs:
                    return self.selfattrs[e.attr]
                return ('sym', e.attr)
            if isinstance(e.value, ast.Attribute) and isinstance(e.value.value, ast.Name) and e.value.value.id == 'self':
                return ('sym', e.value.attr + '.' + e.attr)
            raise Unsupported('attribute ' + ast.unparse(e))
        if isinstance(e, ast.Call):
            return self.call(p, e)
        raise Unsupported('expr ' + type(e).__name__)

    def _ci(self, p, node, default):
        if node is None:
            return default
        v = self.ev(p, node)
        if not isc(v):
            raise Unsupported('non-constant slice bound')
        return v[1]

    def call(self, p, e):
        f = e.func
        fname = ast.unparse(f)
        line = e.lineno
        target = p.env.get(fname) if isinstance(f, ast.Name) else None
        if isinstance(f, ast.Attribute) and isinstance(f.value, ast.Name) and f.value.id == 'self':
            target = ('sym', f.attr)
        if target == ('sym', 'contend'):
            t_in = self.ev(p, e.args[0])
            pat = self.ev(p, e.args[1])
            d, t_out = self.contend_call(p, t_in, self._pattern(pat), line)
            return d
        if target == ('sym', 'io_contention'):
            return ('tuple', ('ioc', self.ev(p, e.args[0])))
        if target is not None and target[0] == 'sym' and target[1].endswith('_tracer'):
            args = [self.ev(p, a) for a in e.args]
            # first argument is the registers object
            args = tuple(args[1:]) if args and args[0] == ('sym', '$registers') else tuple(args)
            p.ncall += 1
            p.events.append(('tracer', target[1], args, tuple(p.guards), line))
            if target[1] == 'out_tracer':
                p.paged = 1000
            return ('call', target[1], args, p.ncall)
        raise Unsupported('call ' + fname)

    def _pattern(self, pat):
        if pat[0] != 'tuple':
            raise Unsupported('contention pattern is not a tuple display')
        out = []
        for e in pat[1:]:
            if e[0] == 'ioc':
                out.append(e)
            elif e[0] == 'tuple' and len(e) == 3:
                out.append(('pe', e[1], e[2]))
            else:
                raise Unsupported('contention pattern entry')
        return out

    # -- statements
    def assign(self, p, tg, v, line):
        if isinstance(tg, ast.Name):
            p.env[tg.id] = v
            return
        if isinstance(tg, (ast.Tuple, ast.List)):
            for i, t in enumerate(tg.elts):
                self.assign(p, t, mk_idx(v, C(i)), line)
            return
        if isinstance(tg, ast.Subscript) and isinstance(tg.value, ast.Name):
            if tg.value.id == self.regname and self.regname not in p.env:
                if isinstance(tg.slice, ast.Slice):
                    lo = self._ci(p, tg.slice.lower, 0)
                    hi = self._ci(p, tg.slice.upper, None)
                    if hi is None:
                        raise Unsupported('open register slice store')
                    for i, k in enumerate(range(lo, hi)):
                        p.regs[k] = mk_idx(v, C(i))
                    return
                k = self.ev(p, tg.slice)
                if not isc(k):
                    raise Unsupported('non-constant register store index')
                p.regs[k[1]] = v
                return
            if tg.value.id == self.memname and self.memname not in p.env:
                p.mw.append((self.ev(p, tg.slice), v, tuple(p.guards), line))
                p.epoch += 1
                return
        if isinstance(tg, ast.Attribute) and isinstance(tg.value, ast.Name) and tg.value.id == 'self':
            p.events.append(('attr', tg.attr, v, tuple(p.guards), line))
            return
        raise Unsupported('assignment target ' + ast.unparse(tg))

    def run(self, paths, body):
        for st in body:
            new = []
            for p in paths:
                if p.done:
                    new.append(p)
                    continue
                new.extend(self.stmt(p, st))
            paths = new
            if len(paths) > MAXPATHS:
                raise Unsupported('path explosion')
        return paths

    inline = {}

    def stmt(self, p, st):
        if isinstance(st, ast.Assign) and isinstance(st.value, ast.Call) and ast.unparse(st.value.func) in self.inline:
            # x = f(...): inline the callee (same parameter names are assumed to be passed through)
            fn = self.inline[ast.unparse(st.value.func)]
            sub = PyExtractor(dict(self.params), self.consts, self.tables, self.selfattrs)
            sub.regname, sub.memname = self.regname, self.memname
            names = [a.arg for a in fn.args.args if a.arg != 'self']
            saved = dict(p.env)
            for n_, a_ in zip(names, st.value.args):
                v_ = None
                if isinstance(a_, ast.Name) and a_.id in (self.regname, self.memname):
                    if n_ != a_.id:
                        raise Unsupported('inlined call renames registers/memory')
                    continue
                sub.params[n_] = self.ev(p, a_)
            p.env = {}
            outs = sub.run([p], fn.body)
            for q in outs:
                rv = q.ret if q.ret is not None else C(0)
                q.env = dict(saved)
                q.ret = None
                q.done = False
                for tg in st.targets:
                    self.assign(q, tg, rv, st.lineno)
            return outs
        if isinstance(st, ast.Assign):
            v = self.ev(p, st.value)
            if len(st.targets) == 1 and isinstance(st.targets[0], ast.Tuple) and isinstance(st.value, ast.Tuple):
                # parallel assignment: all right-hand sides are evaluated first (done above)
                pass
            for tg in st.targets:
                self.assign(p, tg, v, st.lineno)
            return [p]
        if isinstance(st, ast.AugAssign):
            if type(st.op) not in _BINOPS:
                raise Unsupported('augassign op')
            v = mk(_BINOPS[type(st.op)], self.ev(p, st.target), self.ev(p, st.value))
            self.assign(p, st.target, v, st.lineno)
            return [p]
        if isinstance(st, ast.If) and self.inline:
            # a call of an inlinable function inside the test: `if not f(...):` is read as `_inl = f(...); if not _inl:`
            calls = [x for x in ast.walk(st.test) if isinstance(x, ast.Call) and ast.unparse(x.func) in self.inline]
            if len(calls) == 1:
                import copy
                target = calls[0]
                st2 = copy.copy(st)
                def rebuild(e):
                    if e is target:
                        return ast.copy_location(ast.Name(id='_inl', ctx=ast.Load()), e)
                    if isinstance(e, ast.UnaryOp):
                        return ast.copy_location(ast.UnaryOp(op=e.op, operand=rebuild(e.operand)), e)
                    if isinstance(e, ast.BoolOp):
                        return ast.copy_location(ast.BoolOp(op=e.op, values=[rebuild(v) for v in e.values]), e)
                    if isinstance(e, ast.Compare):
                        return ast.copy_location(ast.Compare(left=rebuild(e.left), ops=e.ops, comparators=[rebuild(c) for c in e.comparators]), e)
                    return e
                st2.test = rebuild(st.test)
                pre = ast.copy_location(ast.Assign(targets=[ast.Name(id='_inl', ctx=ast.Store())], value=target), st)
                ast.fix_missing_locations(pre)
                outs = []
                for q in self.stmt(p, pre):
                    outs.extend(self.stmt(q, st2) if not q.done else [q])
                return outs
        if isinstance(st, ast.If):
            cond = self.ev(p, st.test)
            return self.branch(p, cond, lambda q: self.run([q], st.body), lambda q: self.run([q], st.orelse))
        if isinstance(st, ast.Expr):
            if isinstance(st.value, ast.Call):
                f = st.value.func
                if isinstance(f, ast.Name) and f.id in self.inner_funcs:
                    fn, ex = self.inner_funcs[f.id]
                    saved = p.env
                    p.env = {}
                    outs = ex.run([p], fn.body)
                    for q in outs:
                        q.env = dict(saved)
                        q.done = False
                    return outs
                self.ev(p, st.value)
                return [p]
            if isinstance(st.value, ast.Constant):
                return [p]
            raise Unsupported('expression statement')
        if isinstance(st, ast.Return):
            p.ret = self.ev(p, st.value) if st.value is not None else None
            p.done = True
            return [p]
        if isinstance(st, ast.Pass):
            return [p]
        raise Unsupported('statement ' + type(st).__name__)

def closure_of(factory):
    """The single inner FunctionDef a handler factory returns."""
    inner = [x for x in factory.body if isinstance(x, ast.FunctionDef)]
    if len(inner) != 1:
        raise Unsupported('factory %s does not define exactly one closure' % factory.name)
    return inner[0]

def prelude_env(factory):
    """Names bound in the factory before the closure: `a, b = self.a, self.b` -> a: sym a."""
    env = {}
    for st in factory.body:
        if isinstance(st, ast.Assign) and len(st.targets) == 1:
            tg, v = st.targets[0], st.value
            pairs = []
            if isinstance(tg, ast.Tuple) and isinstance(v, ast.Tuple) and len(tg.elts) == len(v.elts):
                pairs = list(zip(tg.elts, v.elts))
            elif isinstance(tg, ast.Name):
                pairs = [(tg, v)]
            for a, b in pairs:
                if isinstance(a, ast.Name) and isinstance(b, ast.Attribute) and isinstance(b.value, ast.Name) and b.value.id == 'self':
                    env[a.id] = ('sym', b.attr)
    return env

# ------------------------------------------------------------------------------------------------ C

class CExtractor(Base):
    """args: list of 7 ints (slot arguments); lookup: table name or None; consts: static const ints."""
    def __init__(self, args, lookup, consts, unit, fname=''):
        self.args = args
        self.lookup = lookup
        self.consts = consts
        self.unit = unit
        self.fname = fname

    def kids(self, n):
        return n.get('inner', [])

    def ev(self, p, n):
        k = n.get('kind')
        inner = n.get('inner', [])
        if k in ('ImplicitCastExpr', 'ParenExpr', 'ConstantExpr'):
            return self.ev(p, inner[0])
        if k == 'CStyleCastExpr':
            v = self.ev(p, inner[-1])
            ty = n.get('type', '')
            if ty == 'byte' or ty == 'unsigned char':
                return mk('&', v, C(0xFF))
            return v
        if k == 'IntegerLiteral':
            return C(int(n['value']))
        if k == 'DeclRefExpr':
            nm = n['ref']
            if nm in p.env:
                return p.env[nm]
            if n.get('refkind') == 'ParmVarDecl':
                if nm == 'lookup':
                    return ('T', self.lookup) if self.lookup else ('T', '?NULL')
                if nm == 'args' or nm == 'arg':
                    return ('sym', '$args')
                if nm == 'self':
                    return ('sym', '$self')
                return ('sym', nm)
            if nm in self.consts:
                return C(self.consts[nm])
            if n.get('refkind') == 'FunctionDecl':
                return ('sym', 'fn:' + nm)
            return ('T', nm)
        if k == 'ArraySubscriptExpr':
            bs = self.ev(p, inner[0])
            if bs == ('sym', '$reg'):
                kk = self.ev(p, inner[1])
                if not isc(kk):
                    raise Unsupported('non-constant register index')
                return p.reg(kk[1])
            if bs == ('sym', '$args'):
                kk = self.ev(p, inner[1])
                if not isc(kk):
                    raise Unsupported('non-constant args index')
                return C(self.args[kk[1]])
            if bs == ('sym', '$mem'):
                return ('mem', self.ev(p, inner[1]), p.epoch + p.paged)
            i = self.ev(p, inner[1])
            if bs[0] == 'idx' and bs[1] == ('sym', '$mem128'):
                # self->mem128[a / 0x4000][a % 0x4000]
                a = _bank_addr(bs[2], i)
                if a is not None:
                    return ('mem', a, p.epoch + p.paged)
                return ('mem', ('bank', bs[2], i), p.epoch + p.paged)
            return mk_idx(bs, i)
        if k == 'MemberExpr':
            nm = n['name']
            base = self.ev(p, inner[0]) if inner else None
            if base == ('sym', '$self'):
                if nm == 'registers': return ('sym', '$reg')
                if nm == 'memory': return ('sym', '$mem')
                if nm == 'mem128': return ('sym', '$mem128')
                return ('sym', nm)
            return ('member', base, nm)
        if k == 'BinaryOperator':
            op = n['opcode']
            if op == ',':
                self.ev(p, inner[0])
                return self.ev(p, inner[1])
            if op == '=':
                v = self.ev(p, inner[1])
                self.store(p, inner[0], v, n.get('line', 0))
                return v
            a = self.ev(p, inner[0])
            b = self.ev(p, inner[1])
            if op == '&&': return mk_bop('and', [a, b])
            if op == '||': return mk_bop('or', [a, b])
            if op == '/': op = '//'
            return mk(op, a, b)
        if k == 'CompoundAssignOperator':
            op = n['opcode'][:-1]
            if op == '/': op = '//'
            v = mk(op, self.ev(p, inner[0]), self.ev(p, inner[1]))
            self.store(p, inner[0], v, n.get('line', 0))
            return v
        if k == 'UnaryOperator':
            op = n['opcode']
            if op == '-': return mk('*', self.ev(p, inner[0]), C(-1))
            if op == '!': return mk_not(self.ev(p, inner[0]))
            if op == '~': return mk('+', mk('*', self.ev(p, inner[0]), C(-1)), C(-1))
            if op == '&':
                return ('addr', self._lname(inner[0]))
            if op == '*':
                v = self.ev(p, inner[0])
                if v[0] == 'addr' and v[1] in p.env:
                    return p.env[v[1]]
                return ('deref', v)
            if op in ('++', '--'):
                cur = self.ev(p, inner[0])
                new = mk('+', cur, C(1 if op == '++' else -1))
                self.store(p, inner[0], new, n.get('line', 0))
                return cur if n.get('isPostfix') else new
            raise Unsupported('unary ' + op)
        if k == 'ConditionalOperator':
            c = self.ev(p, inner[0])
            if c == ('sym', '$mem'):       # PEEK(a): mem ? mem[a] : self->mem128[a/0x4000][a%0x4000]
                a = self.ev(p, inner[1])
                b = self.ev(p, inner[2])
                if a == b:
                    return a
                return ('ite', mk_bool(c), a, b)
            return mk_ite(c, self.ev(p, inner[1]), self.ev(p, inner[2]))
        if k == 'CallExpr':
            return self.call(p, n)
        if k == 'StringLiteral':
            return ('str', n.get('value', ''))
        if k == 'GNUNullExpr' or k == 'CXXNullPtrLiteralExpr':
            return C(0)
        if k == 'UnaryExprOrTypeTraitExpr':
            return ('sym', 'sizeof')
        if k == 'InitListExpr':
            return ('tuple',) + tuple(self.ev(p, x) for x in (n.get('array_filler', [None])[1:] if 'array_filler' in n else inner))
        raise Unsupported('C expr ' + str(k))

    def _lname(self, n):
        while n.get('kind') in ('ImplicitCastExpr', 'ParenExpr'):
            n = n['inner'][0]
        if n.get('kind') == 'DeclRefExpr':
            return n['ref']
        raise Unsupported('address-of non-variable')

    def call(self, p, n):
        inner = n['inner']
        callee = self.ev(p, inner[0])
        args = inner[1:]
        line = n.get('line', 0)
        if callee == ('sym', 'contend'):
            # self->contend(&t, &delay, urc, nargs, cpattern)
            tname = self._addrname(p, args[0])
            dname = self._addrname(p, args[1])
            nargs = self.ev(p, args[3])
            pat = self.ev(p, args[4])
            if pat[0] != 'tuple':
                raise Unsupported('cpattern not an initialiser list')
            vals = pat[1:]
            if len(vals) % 2:
                raise Unsupported('odd cpattern')
            pattern = []
            for i in range(0, len(vals), 2):
                if vals[i + 1] == C(0):
                    pattern.append(('ioc', vals[i]))
                else:
                    pattern.append(('pe', vals[i], vals[i + 1]))
            if not isc(nargs) or nargs[1] != len(pattern):
                p.events.append(('cpattern-count', nargs, len(pattern), line))
            t_in = p.env[tname]
            d, t_out = self.contend_call(p, t_in, pattern, line)
            p.env[dname] = mk('+', p.env[dname], d)
            p.env[tname] = t_out
            return C(0)
        if callee[0] == 'sym' and callee[1] == 'fn:out7ffd':
            v = self.ev(p, args[1])
            p.events.append(('page', v, tuple(p.guards), line))
            p.paged = 1000
            return C(0)
        if callee == ('sym', 'read_port'):
            port = self.ev(p, args[1])
            tr = self._enclosing_tracer(p)
            p.ncall += 1
            p.events.append(('tracer', tr, (port,), tuple(p.guards), line))
            return ('call', tr, (port,), p.ncall)
        if callee[0] == 'sym' and callee[1].startswith('fn:'):
            fn = callee[1][3:]
            if fn in ('Py_BuildValue', '_Py_BuildValue_SizeT'):
                vals = [self.ev(p, a) for a in args]
                rest = tuple(v for v in vals[1:] if v != ('sym', 'registers_obj'))
                return ('pyargs',) + rest
            if fn == 'PyObject_Call':
                target = self.ev(p, args[0])
                a = self.ev(p, args[1])
                if target[0] == 'sym' and target[1].endswith('_tracer') and a[0] == 'pyargs':
                    p.ncall += 1
                    p.events.append(('tracer', target[1], tuple(a[1:]), tuple(p.guards), line))
                    if target[1] == 'out_tracer':
                        p.paged = 1000
                    return ('pyobj', ('call', target[1], tuple(a[1:]), p.ncall))
                raise Unsupported('PyObject_Call of ' + repr(target))
            if fn in ('Py_XDECREF', 'Py_DECREF', 'Py_INCREF', 'PyErr_CheckSignals', '_Py_DECREF', '_Py_XDECREF', 'Py_DecRef'):
                return C(0)
            if fn in ('PyLong_AsLong', 'PyLong_AsUnsignedLong'):
                v = self.ev(p, args[0])
                if v[0] == 'pyobj':
                    return v[1]
                raise Unsupported('PyLong_AsLong of ' + repr(v))
        raise Unsupported('C call ' + repr(callee))

    def _enclosing_tracer(self, p):
        for g in reversed(p.guards):
            for t in walk(g):
                if t[0] == 'sym' and t[1].endswith('_tracer'):
                    return t[1]
        raise Unsupported('read_port call outside a tracer guard')

    def _addrname(self, p, n):
        v = self.ev(p, n)
        if v[0] == 'addr':
            return v[1]
        raise Unsupported('expected &var')

    def store(self, p, lhs, v, line):
        k = lhs.get('kind')
        inner = lhs.get('inner', [])
        if k in ('ParenExpr', 'ImplicitCastExpr'):
            return self.store(p, inner[0], v, line)
        if k == 'DeclRefExpr':
            nm = lhs['ref']
            ty = lhs.get('type', '')
            if ty in ('byte', 'unsigned char'):
                v = mk('&', v, C(0xFF))
            p.env[nm] = v
            return
        if k == 'ArraySubscriptExpr':
            bs = self.ev(p, inner[0])
            if bs == ('sym', '$reg'):
                kk = self.ev(p, inner[1])
                if not isc(kk):
                    raise Unsupported('non-constant register store index')
                p.regs[kk[1]] = v
                return
            if bs == ('sym', '$mem'):
                p.mw.append((self.ev(p, inner[1]), mk('&', v, C(0xFF)), tuple(p.guards), line))
                p.epoch += 1
                return
            if bs[0] == 'idx' and bs[1] == ('sym', '$mem128'):
                i = self.ev(p, inner[1])
                a = _bank_addr(bs[2], i)
                p.mw.append((a if a is not None else ('bank', bs[2], i), mk('&', v, C(0xFF)), tuple(p.guards), line))
                p.epoch += 1
                return
            if bs == ('sym', '$mem128'):
                p.events.append(('map', self.ev(p, inner[1]), v, line))
                return
            if bs == ('sym', '$args'):
                p.events.append(('attr', 'args', v, tuple(p.guards), line))     # hit/miss counters kept in the args array
                return
        if k == 'MemberExpr':
            base = self.ev(p, inner[0]) if inner else None
            if base == ('sym', '$self'):
                p.events.append(('attr', lhs['name'], v, tuple(p.guards), line))
                p.env['self.' + lhs['name']] = v
                return
        if k == 'UnaryOperator' and lhs.get('opcode') == '*':
            tgt = self.ev(p, inner[0])
            if tgt[0] == 'addr':
                p.env[tgt[1]] = v
                return
        raise Unsupported('C store target ' + str(k))

    def run(self, paths, n):
        k = n.get('kind')
        if k == 'CompoundStmt':
            for c in n.get('inner', []):
                paths = self.run(paths, c)
                if len(paths) > MAXPATHS:
                    raise Unsupported('path explosion')
            return paths
        out = []
        for p in paths:
            if p.done:
                out.append(p)
                continue
            out.extend(self.stmt(p, n))
        return out

    def stmt(self, p, n):
        k = n.get('kind')
        inner = n.get('inner', [])
        if k == 'DeclStmt':
            for v in inner:
                if v.get('kind') == 'VarDecl':
                    nm = v['name']
                    vin = [c for c in v.get('inner', []) if c.get('kind') not in ('FullComment',)]
                    if vin:
                        val = self.ev(p, vin[-1])
                        ty = v.get('type', '')
                        if ty in ('byte', 'unsigned char'):
                            val = mk('&', val, C(0xFF))
                        p.env[nm] = val
                    else:
                        p.env[nm] = ('undef', nm)
            return [p]
        if k == 'IfStmt':
            cnode = inner[0]
            then = inner[1]
            els = inner[2] if len(inner) > 2 else None
            cond = self.ev(p, cnode)
            if cond == ('sym', '$mem'):
                # POKE(a, v): if (mem) mem[a] = v; else self->mem128[a/0x4000][a%0x4000] = v;
                a = self.run([p.fork()], then)
                b = self.run([p.fork()], els) if els is not None else [p.fork()]
                if len(a) == 1 and len(b) == 1 and a[0].mw == b[0].mw and a[0].regs == b[0].regs:
                    return a
                for q in a: q.guards.append(mk_bool(cond))
                for q in b: q.guards.append(mk_not(cond))
                return a + b
            if cond[0] == 'pyobj':
                # result of a Python call: NULL only when the tracer raised; the error path is not modelled
                return self.run([p], then)
            if cond[0] == 'not' and cond[1][0] == 'bool' and cond[1][1][0] == 'pyobj':
                return self.run([p], els) if els is not None else [p]
            if cond[0] == '==' and cond[1][0] == 'pyobj' and cond[2] == C(0):
                return self.run([p], els) if els is not None else [p]
            return self.branch(p, cond, lambda q: self.run([q], then),
                               lambda q: (self.run([q], els) if els is not None else [q]))
        if k == 'ReturnStmt':
            p.ret = self.ev(p, inner[0]) if inner else None
            p.done = True
            return [p]
        if k in ('NullStmt',):
            return [p]
        if k == 'CompoundStmt':
            return self.run([p], n)
        if k in ('BinaryOperator', 'CompoundAssignOperator', 'UnaryOperator', 'CallExpr', 'ParenExpr', 'ImplicitCastExpr', 'CStyleCastExpr'):
            self.ev(p, n)
            return [p]
        raise Unsupported('C stmt ' + str(k))

def _bank_addr(hi, lo):
    """mem128[a / 0x4000][a % 0x4000] -> a   (terms: hi = a >> 14, lo = a & 0x3FFF)."""
    if hi[0] == '>>' and hi[2] == C(14):
        a = hi[1]
        if lo == mk('&', a, C(0x3FFF)):
            return a
    if isc(hi) and isc(lo):
        return C(hi[1] * 0x4000 + lo[1])
    return None

# ------------------------------------------------------------------------------------------------ canonical path sets

def path_record(p, drop_regs=(), keep_page=False):
    regs = {}
    for k, v in p.regs.items():
        if k in drop_regs:
            continue
        v = post(v)
        if v != ('reg', k):
            regs[k] = v
    mw = tuple((post(a), post(mk('&', v, C(0xFF)))) for a, v, g, l in p.mw)
    ev = []
    for e in p.events:
        if e[0] == 'tracer':
            ev.append(('tracer', e[1], tuple(post(a) for a in e[2])))
        elif e[0] == 'page' and keep_page:
            ev.append(('page', post(e[1])))
    guards = frozenset(post(g) for g in p.guards)
    ret = post(p.ret) if isinstance(p.ret, tuple) else p.ret
    return guards, (tuple(sorted(regs.items())), mw, tuple(ev), ret)

def canon(paths, drop_regs=(), transform=None, keep_page=False):
    """Set of (guards, effects) with contradictory paths removed and pairs that differ only in the
    polarity of one guard (same effects) merged."""
    items = set()
    for p in paths:
        g, e = path_record(p, drop_regs, keep_page)
        if transform:
            g, e = transform(g, e)
        g = frozenset(x for x in g if x != C(1))
        if C(0) in g:
            continue
        if any(mk_not(x) in g for x in g):
            continue
        items.add((g, e))
    changed = True
    while changed:
        changed = False
        for (g, e) in list(items):
            if (g, e) not in items:
                continue
            for x in g:
                g2 = (g - {x}) | {mk_not(x)}
                if (g2, e) in items:
                    items.discard((g, e)); items.discard((g2, e)); items.add((g - {x}, e))
                    changed = True
                    break
            if changed:
                break
        # subsumption: (g, e) and (g' ⊂ g, e)
    return items


def atoms_of(items):
    out = set()
    for g, e in items:
        for x in g:
            out.add(x if x[0] != 'not' else x[1])
    return out

def _assume(t, atom, positive):
    """Rewrite term t under the assumption atom (positive) / not atom."""
    from .terms import subst, mask_of
    mapping = {}
    if atom[0] == 'bool':
        x = atom[1]
        if positive:
            if mask_of(x) == 1:
                mapping[x] = C(1)
        else:
            mapping[x] = C(0)
        mapping[atom] = C(1 if positive else 0)
    elif atom[0] == '==' and isc(atom[2]) and positive:
        mapping[atom[1]] = atom[2]
        mapping[atom] = C(1)
    elif atom[0] == '!=' and isc(atom[2]) and not positive:
        mapping[atom[1]] = atom[2]
        mapping[atom] = C(0)
    elif atom[0] == '!=' and atom[2] == C(0) and positive and mask_of(atom[1]) == 1:
        mapping[atom[1]] = C(1)
        mapping[atom] = C(1)
    elif atom[0] == '==' and atom[2] == C(0) and not positive and mask_of(atom[1]) == 1:
        mapping[atom[1]] = C(1)
        mapping[atom] = C(0)
    else:
        mapping[atom] = C(1 if positive else 0)
    return subst(t, mapping)

def _map_effects(e, f):
    regs, mw, ev, ret = e
    regs = tuple((k, f(v)) for k, v in regs)
    regs = tuple((k, v) for k, v in regs if v != ('reg', k))
    mw = tuple((f(a), f(v)) for a, v in mw)
    ev2 = []
    for x in ev:
        if x[0] == 'tracer':
            ev2.append(('tracer', x[1], tuple(f(a) for a in x[2])))
        else:
            ev2.append((x[0],) + tuple(f(a) if isinstance(a, tuple) else a for a in x[1:]))
    return regs, mw, tuple(ev2), (f(ret) if isinstance(ret, tuple) else ret)

def refine(items, atoms):
    """Case-split every path on each atom (that it does not already decide) and simplify under the assumption.
    Semantics-preserving: a path P becomes P&a and P&!a."""
    items = set(items)
    for a in sorted(atoms, key=repr):
        na = mk_not(a)
        new = set()
        for g, e in items:
            if a in g or na in g:
                new.add((g, e))
                continue
            mentions = any(a == t or (a[0] == 'bool' and a[1] == t) or (a[0] in ('==', '!=') and a[1] == t)
                           for part in (list(g) + [x for _, x in e[0]] + [y for m in e[1] for y in m] + [z for x in e[2] for z in x[1:] if isinstance(z, tuple)]) for t in walk(part))
            if not mentions:
                new.add((g, e))
                continue
            for pos in (True, False):
                f = lambda t, a=a, pos=pos: _assume(t, a, pos)
                g2 = set()
                dead = False
                for x in g:
                    y = mk_bool(f(x))
                    if isc(y):
                        if not y[1]:
                            dead = True
                        continue
                    g2.add(y)
                if dead:
                    continue
                g2.add(a if pos else na)
                if any(mk_not(x) in g2 for x in g2):
                    continue
                new.add((frozenset(g2), _map_effects(e, f)))
        items = new
    return _merge(items)

def _merge(items):
    items = set(items)
    changed = True
    while changed:
        changed = False
        for (g, e) in list(items):
            if (g, e) not in items:
                continue
            for x in g:
                g2 = (g - {x}) | {mk_not(x)}
                if (g2, e) in items:
                    items.discard((g, e)); items.discard((g2, e)); items.add((g - {x}, e))
                    changed = True
                    break
            if changed:
                break
    return items

def equivalent(a, b):
    """Decide equality of two canonical path sets, refining each by the other's guard atoms when needed.
    Returns (equal?, a', b')."""
    if a == b:
        return True, a, b
    aa, ab = atoms_of(a), atoms_of(b)
    a2 = refine(a, ab - aa)
    b2 = refine(b, aa - ab)
    if a2 == b2:
        return True, a2, b2
    # full mutual refinement
    allat = atoms_of(a2) | atoms_of(b2)
    a3 = refine(a2, allat)
    b3 = refine(b2, allat)
    return a3 == b3, a3, b3


def simplify_under_guards(items):
    """Rewrite each path's effect terms under the assumptions its own guards provide."""
    out = set()
    for g, e in items:
        cur = e
        for x in sorted(g, key=repr):
            if x[0] == 'not':
                atom, pos = x[1], False
            else:
                atom, pos = x, True
            if atom[0] in ('and', 'or'):
                continue
            f = lambda t, a=atom, p=pos: _assume(t, a, p)
            cur = _map_effects(cur, f)
        out.add((g, cur))
    return _merge(out)
