"""Comparison of two canonical path sets: structural (with mutual case-split refinement), then
component-wise modulo the finite-domain folder."""
from . import effects, fold, semdiff
from .terms import show, mk_not

def _components(e):
    regs, mw, ev, ret = e
    out = {}
    for k, v in regs:
        out[('reg', k)] = v
    for i, (a, v) in enumerate(mw):
        out[('mw-addr', i)] = a
        out[('mw-val', i)] = v
    for i, x in enumerate(ev):
        if x[0] == 'tracer':
            out[('ev', i, 'tracer', x[1])] = ('tuple',) + tuple(x[2])
        else:
            out[('ev', i, x[0], '')] = ('tuple',) + tuple(y for y in x[1:] if isinstance(y, tuple))
    if isinstance(ret, tuple):
        out[('ret',)] = ret
    elif ret is not None:
        out[('ret',)] = ('c', int(ret))
    return out

def _guards_match(ga, gb):
    """Guard sets equal structurally or pairwise modulo fold (exhaustive only)."""
    if ga == gb:
        return True
    if len(ga) != len(gb):
        return False
    ra = sorted(ga - gb, key=repr)
    rb = sorted(gb - ga, key=repr)
    used = set()
    for x in ra:
        hit = None
        for j, y in enumerate(rb):
            if j in used:
                continue
            r = fold.equal_modulo_fold(x, y)
            if r[0] == 'equal':
                hit = j
                break
        if hit is None:
            return False
        used.add(hit)
    return True

def compare(a, b):
    """a, b: canonical path sets. Returns dict:
       status: 'equal' | 'equal-fold' | 'differ' | 'limit'
       detail: list of human-readable differences (for differ: proven, with witness)"""
    eq, a2, b2 = effects.equivalent(a, b)
    if eq:
        return {'status': 'equal', 'detail': []}
    a2, b2 = effects.simplify_under_guards(a2), effects.simplify_under_guards(b2)
    eq, a2, b2 = effects.equivalent(a2, b2)
    if eq:
        return {'status': 'equal', 'detail': []}
    # second attempt: canonicalise small pure sub-terms by truth table, then compare structurally again
    cache = {}
    f = lambda t: fold.canon_fold(t, cache)
    def cf(items):
        out = set()
        for g, e in items:
            g2 = frozenset(effects.mk_bool(f(x)) for x in g)
            out.add((g2, effects._map_effects(e, f)))
        return out
    a2, b2 = cf(a2), cf(b2)
    eq, a2, b2 = effects.equivalent(a2, b2)
    if eq:
        return {'status': 'equal-fold', 'detail': []}
    only_a = sorted(a2 - b2, key=repr)
    only_b = sorted(b2 - a2, key=repr)
    used = set()
    status = 'equal-fold'
    detail = []
    for ga, ea in only_a:
        match = None
        for j, (gb, eb) in enumerate(only_b):
            if j in used:
                continue
            if _guards_match(ga, gb):
                match = j
                break
        if match is None:
            status = 'limit' if status != 'differ' else status
            detail.append({'kind': 'unmatched-path', 'side': 'a', 'guards': sorted(show(x) for x in ga)})
            continue
        used.add(match)
        gb, eb = only_b[match]
        ca, cb = _components(ea), _components(eb)
        for k in sorted(set(ca) | set(cb), key=repr):
            if k not in ca or k not in cb:
                # one side changes a register the other leaves alone: compare with the entry value
                x = ca.get(k, ('reg', k[1]) if k[0] == 'reg' else None)
                y = cb.get(k, ('reg', k[1]) if k[0] == 'reg' else None)
                if x is None or y is None:
                    status = 'differ'
                    detail.append({'kind': 'effect-missing', 'component': repr(k), 'guards': sorted(show(g) for g in ga),
                                   'a': show(x) if x else None, 'b': show(y) if y else None})
                    continue
            else:
                x, y = ca[k], cb[k]
            if x == y:
                continue
            r = fold.equal_modulo_fold(x, y)
            if r[0] == 'equal':
                continue
            if r[0] == 'differ':
                status = 'differ'
                detail.append({'kind': 'value-differs', 'component': repr(k), 'guards': sorted(show(g) for g in ga),
                               'a': show(r[1]['a']), 'b': show(r[1]['b']), 'witness': r[1]['witness']})
            else:
                if status != 'differ':
                    status = 'limit'
                detail.append({'kind': 'undecided', 'component': repr(k), 'guards': sorted(show(g) for g in ga),
                               'a': show(r[1]['a']), 'b': show(r[1]['b']), 'reason': r[1]['reason']})
    for j, (gb, eb) in enumerate(only_b):
        if j not in used:
            if status != 'differ':
                status = 'limit'
            detail.append({'kind': 'unmatched-path', 'side': 'b', 'guards': sorted(show(x) for x in gb)})
    if status != 'equal-fold':
        w = semdiff.find_witness(a, b)
        if w is not None:
            return {'status': 'differ', 'detail': [{'kind': 'witness', **w}] + [d for d in detail if d['kind'] == 'value-differs']}
        # a component-level difference found by folding ignores the path guards; only a whole-path witness is a proof
        return {'status': 'limit', 'detail': detail}
    return {'status': status, 'detail': detail}
