"""Interval x known-bits-mask abstract domain and an abstract evaluator for terms (with guard refinement)."""
from .terms import C, isc, COMM, CMP, BYTE_TABLES, mk_not

INF = float('inf')

class V:
    __slots__ = ('lo', 'hi', 'mask')
    def __init__(self, lo, hi, mask=None):
        self.lo, self.hi = lo, hi
        if mask is None and lo >= 0 and hi != INF:
            mask = (1 << int(hi).bit_length()) - 1
        self.mask = mask
        if self.mask is not None and lo >= 0:
            self.hi = min(self.hi, self.mask)

    def __repr__(self):
        return '[%s,%s]%s' % (self.lo, self.hi, '' if self.mask is None else '&' + hex(self.mask))

    def within(self, lo, hi):
        return self.lo >= lo and self.hi <= hi

def const(c):
    c = int(c)
    return V(c, c, c if c >= 0 else None)

BYTE = V(0, 255)
WORD = V(0, 65535)
BOOL = V(0, 1)
NONNEG = V(0, INF)
TOP = V(-INF, INF)

def join(a, b):
    m = (a.mask | b.mask) if (a.mask is not None and b.mask is not None) else None
    return V(min(a.lo, b.lo), max(a.hi, b.hi), m)

def add(a, b):
    if a.mask is not None and b.mask is not None and a.mask & b.mask == 0 and a.lo >= 0 and b.lo >= 0:
        return V(a.lo + b.lo, min(a.hi + b.hi, a.mask | b.mask), a.mask | b.mask)
    return V(a.lo + b.lo, a.hi + b.hi)

def mul(a, b):
    def m(x, y):
        if x == 0 or y == 0:
            return 0
        return x * y
    cs = [m(a.lo, b.lo), m(a.lo, b.hi), m(a.hi, b.lo), m(a.hi, b.hi)]
    lo, hi = min(cs), max(cs)
    mask = None
    for x, y in ((a, b), (b, a)):
        if y.lo == y.hi and y.lo > 0 and (y.lo & (y.lo - 1)) == 0 and x.mask is not None and x.lo >= 0:
            mask = x.mask * y.lo
        if x.lo >= 0 and x.hi <= 1 and y.lo == y.hi and y.lo >= 0:
            mask = y.lo
    return V(lo, hi, mask)

def mod(a, b):
    if b.lo == b.hi and b.lo > 0:
        n = b.lo
        if a.lo >= 0 and a.hi < n:
            return a
        if (n & (n - 1)) == 0:
            m = n - 1
            if a.mask is not None and a.lo >= 0:
                m &= a.mask
            return V(0, min(n - 1, m), m)
        return V(0, n - 1)
    if b.lo > 0:
        return V(0, b.hi - 1 if b.hi != INF else INF)
    return TOP

def fdiv(a, b):
    if b.lo == b.hi and b.lo > 0:
        n = b.lo
        m = None
        if (n & (n - 1)) == 0 and a.mask is not None and a.lo >= 0:
            m = a.mask // n
        return V(a.lo // n if a.lo != -INF else -INF, a.hi // n if a.hi != INF else INF, m)
    return TOP

def band(a, b):
    ms = [x.mask for x in (a, b) if x.mask is not None and x.lo >= 0]
    if ms:
        m = ms[0]
        for x in ms[1:]:
            m &= x
        hi = m
        for x in (a, b):
            if x.lo >= 0 and x.hi != INF:
                hi = min(hi, x.hi)
        return V(0, hi, m)
    # one operand non-negative with finite bound: result within [0, hi]
    for x in (a, b):
        if x.lo >= 0 and x.hi != INF:
            return V(0, x.hi)
    return TOP

def bor(a, b):
    if a.mask is not None and b.mask is not None and a.lo >= 0 and b.lo >= 0:
        m = a.mask | b.mask
        return V(max(a.lo, b.lo), m, m)
    return TOP

def bxor(a, b):
    if a.mask is not None and b.mask is not None and a.lo >= 0 and b.lo >= 0:
        m = a.mask | b.mask
        return V(0, m, m)
    return TOP

def shr(a, b):
    if b.lo == b.hi and b.lo >= 0:
        return fdiv(a, const(1 << b.lo))
    return TOP

def shl(a, b):
    if b.lo == b.hi and b.lo >= 0:
        return mul(a, const(1 << b.lo))
    return TOP

REG16 = (12, 24, 29)

def reg_range(k):
    if k in REG16: return WORD
    if k == 25: return NONNEG
    if k in (26, 28): return BOOL
    if k == 27: return V(0, 2)
    if k == 13: return WORD
    return BYTE

class AbsEval:
    """Abstract evaluation of terms.  `tables`: name -> element summary (V, or tuple of V for pair tables),
    `refine`: term -> V overrides derived from path guards."""
    def __init__(self, tables=None, syms=None):
        self.tables = tables or {}
        self.syms = syms or {}
        self.refine = {}
        self.memo = {}
        self.problems = []   # (kind, term) obligations found while evaluating (memory index out of range)

    def assume(self, guards):
        """Refine by a conjunction of guard terms (only simple shapes are used; others are ignored, which is sound)."""
        self.refine = {}
        self.memo = {}
        for g in guards:
            self._assume(g)

    def _narrow(self, t, lo=None, hi=None):
        cur = self.refine.get(t)
        if cur is None:
            saved = self.refine
            self.refine = {k: v for k, v in saved.items()}
            cur = self.ev(t)
            self.refine = saved
        nlo = cur.lo if lo is None else max(cur.lo, lo)
        nhi = cur.hi if hi is None else min(cur.hi, hi)
        self.refine[t] = V(nlo, nhi, cur.mask if nlo >= 0 else None)
        self.memo = {}

    def _assume(self, g):
        k = g[0]
        if k == 'and':
            for x in g[1:]:
                self._assume(x)
        elif k == '>' and isc(g[2]):
            self._narrow(g[1], lo=g[2][1] + 1)
        elif k == '<' and isc(g[2]):
            self._narrow(g[1], hi=g[2][1] - 1)
        elif k == '<' and isc(g[1]):
            self._narrow(g[2], lo=g[1][1] + 1)
        elif k == '==' and isc(g[2]):
            self._narrow(g[1], lo=g[2][1], hi=g[2][1])
        elif k == '!=' and isc(g[2]) and g[2][1] == 0:
            v = self.ev(g[1])
            if v.lo >= 0:
                self._narrow(g[1], lo=1)
        elif k == 'bool':
            v = self.ev(g[1])
            if v.lo >= 0:
                self._narrow(g[1], lo=1)
        elif k == 'not' and g[1][0] == 'bool':
            self._narrow(g[1][1], lo=0, hi=0)
        elif k in ('<', '>') and not isc(g[1]) and not isc(g[2]):
            # a < b with b bounded above -> a <= b.hi - 1 ; a bounded below -> b >= a.lo + 1
            a, b = (g[1], g[2]) if k == '<' else (g[2], g[1])
            va, vb = self.ev(a), self.ev(b)
            if vb.hi != INF:
                self._narrow(a, hi=vb.hi - 1)
            if va.lo != -INF:
                self._narrow(b, lo=va.lo + 1)

    def ev(self, t):
        if t in self.refine:
            return self.refine[t]
        if t in self.memo:
            return self.memo[t]
        v = self._ev(t)
        self.memo[t] = v
        return v

    def _ev(self, t):
        k = t[0]
        if k == 'c':
            return const(t[1])
        if k == 'reg':
            return reg_range(t[1])
        if k == 'sym':
            return self.syms.get(t[1], NONNEG)
        if k == 'mem':
            if t[1][0] != 'bank':
                a = self.ev(t[1])
                if not a.within(0, 65535):
                    self.problems.append(('memory index out of 0..65535', t[1], a))
            return BYTE
        if k == 'call':
            return BYTE
        if k == 'contend':
            return NONNEG
        if k in COMM:
            vals = [self.ev(x) for x in t[1:]]
            f = {'+': add, '*': mul, '&': band, '|': bor, '^': bxor}[k]
            if k == '+':
                # add bit-disjoint non-negative parts first (keeps masks), constants last
                vals.sort(key=lambda v: (v.mask is None, v.lo < 0))
            r = vals[0]
            for v in vals[1:]:
                r = f(r, v)
            return r
        if k in CMP or k in ('and', 'or', 'not', 'bool'):
            for x in t[1:]:
                if isinstance(x, tuple):
                    self.ev(x)
            return BOOL
        if k == '>>': return shr(self.ev(t[1]), self.ev(t[2]))
        if k == '<<': return shl(self.ev(t[1]), self.ev(t[2]))
        if k == '//': return fdiv(self.ev(t[1]), self.ev(t[2]))
        if k == '%': return mod(self.ev(t[1]), self.ev(t[2]))
        if k == 'sel':
            self.ev(t[1])
            return join(const(0), self.ev(t[2]))
        if k == 'ite':
            self.ev(t[1])
            return join(self.ev(t[2]), self.ev(t[3]))
        if k == 'rinc':
            v = self.ev(t[1])
            return BYTE if v.within(0, 255) else TOP
        if k == 's8':
            v = self.ev(t[1])
            return V(-128, 127) if v.within(0, 255) else TOP
        if k == 'idx':
            chain = []
            b = t
            while b[0] == 'idx':
                chain.append(b[2])
                b = b[1]
            for c in chain:
                self.ev(c)
            if b[0] == 'T':
                summ = self.tables.get(b[1])
                if summ is None:
                    return TOP
                depth, elem = summ
                n = len(chain)
                if n == depth:
                    return elem if isinstance(elem, V) else TOP
                if n == depth + 1 and isinstance(elem, tuple):
                    i = chain[0]   # chain is reversed: last subscript first
                    if isc(i) and 0 <= i[1] < len(elem):
                        return elem[i[1]]
                return TOP
            if b[0] == 'tuple':
                vs = [self.ev(x) for x in b[1:]]
                r = vs[0]
                for v in vs[1:]:
                    r = join(r, v)
                return r
            return TOP
        if k == 'tuple':
            return TOP
        return TOP
