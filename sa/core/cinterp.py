"""Constant folding of C table-initialisation functions (init_*): loops with constant bounds, local integer
variables, stores into global arrays.  This unrolls initialisers whose result is a compile-time constant; it is
used only on functions that read nothing but literals, loop counters and previously initialised tables."""
from .cfacts import strip

class CFoldError(Exception):
    pass

class Break(Exception):
    pass

class CFold:
    def __init__(self, unit, consts, tables=None, max_steps=80_000_000):
        self.unit = unit
        self.consts = consts
        self.tables = tables if tables is not None else {}   # name -> dict{index tuple: value}
        self.steps = 0
        self.max_steps = max_steps

    def run_function(self, name, skip_guard=True):
        """Execute init function `name`.  The outer `if (TABLE[..] == 0)` once-only guard is taken."""
        body = self.unit.body(name)
        env = {}
        self.block(body, env, top=True)

    def block(self, n, env, top=False):
        for st in n.get('inner', []):
            self.stmt(st, env, top)

    def stmt(self, n, env, top=False):
        k = n.get('kind')
        inner = n.get('inner', [])
        if k == 'CompoundStmt':
            self.block(n, env)
        elif k == 'DeclStmt':
            for v in inner:
                if v.get('kind') == 'VarDecl':
                    vin = v.get('inner', [])
                    env[v['name']] = self.ev(vin[-1], env) if vin else 0
        elif k == 'ForStmt':
            # inner: init, (cond var), cond, inc, body
            init, _, cond, inc, body = (inner + [None] * 5)[:5]
            if init and init.get('kind'):
                self.stmt(init, env)
            while True:
                if cond and cond.get('kind') and not self.ev(cond, env):
                    break
                self.stmt(body, env)
                if inc and inc.get('kind'):
                    self.ev(inc, env)
        elif k == 'WhileStmt':
            cond, body = inner[-2], inner[-1]
            while self.ev(cond, env):
                self.stmt(body, env)
        elif k == 'IfStmt':
            cond = self.ev(inner[0], env) if not top else 1
            if top:
                # once-only guard `if (TABLE[0].. == 0)`: always initialise
                cond = 1
            if cond:
                self.stmt(inner[1], env)
            elif len(inner) > 2:
                self.stmt(inner[2], env)
        elif k == 'CallExpr':
            callee = strip(inner[0])
            if callee.get('kind') == 'DeclRefExpr' and callee.get('ref', '').startswith('init_'):
                return   # dependency initialisers are run by the driver in order
            raise CFoldError('call in initialiser: %s' % callee.get('ref'))
        elif k == 'NullStmt':
            pass
        elif k in ('BinaryOperator', 'CompoundAssignOperator', 'UnaryOperator', 'ParenExpr', 'ImplicitCastExpr'):
            self.ev(n, env)
        else:
            raise CFoldError('statement ' + str(k))

    def _lvalue(self, n, env):
        n = strip(n)
        if n.get('kind') == 'DeclRefExpr':
            return ('var', n['ref'])
        if n.get('kind') == 'ArraySubscriptExpr':
            idx = []
            b = n
            while b.get('kind') == 'ArraySubscriptExpr':
                idx.append(self.ev(b['inner'][1], env))
                b = strip(b['inner'][0])
            if b.get('kind') != 'DeclRefExpr':
                raise CFoldError('array base')
            return ('arr', b['ref'], tuple(reversed(idx)))
        raise CFoldError('lvalue ' + str(n.get('kind')))

    def _store(self, lv, v, env, ty=None):
        if lv[0] == 'var':
            env[lv[1]] = v
        else:
            self.tables.setdefault(lv[1], {})[lv[2]] = v & 0xFF   # tables are `byte` arrays
        return v

    def _load(self, lv, env):
        if lv[0] == 'var':
            if lv[1] in env:
                return env[lv[1]]
            if lv[1] in self.consts:
                return self.consts[lv[1]]
            raise CFoldError('unbound ' + lv[1])
        t = self.tables.get(lv[1])
        if t is None:
            raise CFoldError('table %s read before initialisation' % lv[1])
        return t.get(lv[2], 0)

    def ev(self, n, env):
        self.steps += 1
        if self.steps > self.max_steps:
            raise CFoldError('step limit')
        k = n.get('kind')
        inner = n.get('inner', [])
        if k in ('ImplicitCastExpr', 'ParenExpr', 'ConstantExpr'):
            return self.ev(inner[0], env)
        if k == 'CStyleCastExpr':
            v = self.ev(inner[-1], env)
            if n.get('type') in ('byte', 'unsigned char'):
                return v & 0xFF
            return v
        if k == 'IntegerLiteral':
            return int(n['value'])
        if k in ('DeclRefExpr', 'ArraySubscriptExpr'):
            return self._load(self._lvalue(n, env), env)
        if k == 'BinaryOperator':
            op = n['opcode']
            if op == '=':
                return self._store(self._lvalue(inner[0], env), self.ev(inner[1], env), env)
            if op == '&&':
                return 1 if (self.ev(inner[0], env) and self.ev(inner[1], env)) else 0
            if op == '||':
                return 1 if (self.ev(inner[0], env) or self.ev(inner[1], env)) else 0
            a = self.ev(inner[0], env)
            b = self.ev(inner[1], env)
            return self._bin(op, a, b)
        if k == 'CompoundAssignOperator':
            lv = self._lvalue(inner[0], env)
            v = self._bin(n['opcode'][:-1], self._load(lv, env), self.ev(inner[1], env))
            return self._store(lv, v, env)
        if k == 'UnaryOperator':
            op = n['opcode']
            if op in ('++', '--'):
                lv = self._lvalue(inner[0], env)
                cur = self._load(lv, env)
                self._store(lv, cur + (1 if op == '++' else -1), env)
                return cur if n.get('isPostfix') else cur + (1 if op == '++' else -1)
            v = self.ev(inner[0], env)
            if op == '-': return -v
            if op == '!': return 0 if v else 1
            if op == '~': return ~v
            if op == '+': return v
            raise CFoldError('unary ' + op)
        if k == 'ConditionalOperator':
            return self.ev(inner[1], env) if self.ev(inner[0], env) else self.ev(inner[2], env)
        raise CFoldError('expression ' + str(k))

    @staticmethod
    def _bin(op, a, b):
        if op == '+': return a + b
        if op == '-': return a - b
        if op == '*': return a * b
        if op == '/':
            q = abs(a) // abs(b)
            return q if (a >= 0) == (b >= 0) else -q      # C truncates towards zero
        if op == '%':
            r = abs(a) % abs(b)
            return r if a >= 0 else -r
        if op == '&': return a & b
        if op == '|': return a | b
        if op == '^': return a ^ b
        if op == '<<': return a << b
        if op == '>>': return a >> b
        if op == '==': return int(a == b)
        if op == '!=': return int(a != b)
        if op == '<': return int(a < b)
        if op == '>': return int(a > b)
        if op == '<=': return int(a <= b)
        if op == '>=': return int(a >= b)
        raise CFoldError('binary ' + op)
