"""Term algebra with normal forms (local value numbering target language).

A term is a nested tuple:
  ('c', n)                     integer constant
  ('reg', k)                   entry value of register slot k
  ('mem', addr, epoch)         byte read from memory after `epoch` stores
  ('sym', name)                opaque non-negative integer symbol (attribute, parameter)
  ('T', name)                  lookup table
  ('idx', base, i)             subscript
  ('tuple', a, b, ...)         tuple value
  ('+',...), ('*',...), ('&',...), ('|',...), ('^',...)   n-ary, sorted, constants folded
  ('>>', x, c) ('<<', x, c) ('//', x, y) ('%', x, y)
  ('==',a,b) ('!=',a,b) ('<',a,b) ('>',a,b) ('<=',a,b) ('>=',a,b)
  ('and',...), ('or',...), ('not', x)
  ('sel', cond, k)             cond ? k : 0   (bool * k)
  ('ite', c, a, b)
  ('rinc', x, n)               (x & 0x80) + ((x + n) & 0x7F)
  ('s8', x)                    x < 128 ? x : x - 256
  ('call', kind, args, seq)    result of an external (tracer) call
  ('delay', n)                 result of the n-th contend() call on a path
Equality of behaviour is decided by structural equality of normal forms only."""

COMM = {'+', '*', '&', '|', '^'}
CMP = {'==', '!=', '<', '>', '<=', '>='}
BOOLK = CMP | {'and', 'or', 'not', 'bool'}
NEG = {'==': '!=', '!=': '==', '<': '>=', '>=': '<', '>': '<=', '<=': '>'}
SWAP = {'<': '>', '>': '<', '<=': '>=', '>=': '<=', '==': '==', '!=': '!='}

# lookup tables whose elements are bytes (C: `static byte X[...]`; Python: checked by the C08 range rule)
BYTE_TABLES = set('ADC ADC_A_A ADD AND BIT CCF CP CPL DAA DEC INC NEG OR PARITY RL RLC RR RRC RLA RLCA RRA RRCA SBC SBC_A_A SCF SLA SLL SRA SRL SUB SZ53P XOR'.split())

def C(n):
    return ('c', int(n))

def isc(t):
    return t[0] == 'c'

def _fold2(op, x, y):
    if op == '+': return x + y
    if op == '-': return x - y
    if op == '*': return x * y
    if op == '//': return x // y
    if op == '%': return x % y
    if op == '&': return x & y
    if op == '|': return x | y
    if op == '^': return x ^ y
    if op == '<<': return x << y
    if op == '>>': return x >> y
    if op == '==': return int(x == y)
    if op == '!=': return int(x != y)
    if op == '<': return int(x < y)
    if op == '>': return int(x > y)
    if op == '<=': return int(x <= y)
    if op == '>=': return int(x >= y)
    raise KeyError(op)

def key(t):
    return (1 if t[0] == 'c' else 0, repr(t))

def is_bool(t):
    return t[0] in BOOLK or (isc(t) and t[1] in (0, 1))

def mask_of(t):
    """A cheap upper bit-mask for non-negative terms (None = unknown)."""
    k = t[0]
    if k == 'c':
        return t[1] if t[1] >= 0 else None
    if k == '&':
        m = None
        for x in t[1:]:
            mx = mask_of(x)
            if mx is not None:
                m = mx if m is None else m & mx
        return m
    if k in ('|', '^'):
        m = 0
        for x in t[1:]:
            mx = mask_of(x)
            if mx is None:
                return None
            m |= mx
        return m
    if k == 'mem':
        return 0xFF
    if k == 'reg':
        # entry invariant of C08: 8-bit slots in 0..255, SP/PC/MEMPTR in 0..65535, IFF/HALT 0..1, IM 0..2
        r = t[1]
        if r in (12, 24, 29): return 0xFFFF
        if r in (26, 28): return 1
        if r == 27: return 3
        if r == 25 or r == 13: return None
        return 0xFF
    if k == 'idx':
        b = t
        while b[0] == 'idx':
            b = b[1]
        if b[0] == 'T' and b[1] in BYTE_TABLES:
            return 0xFF
        return None
    if k == 's8':
        return None
    if k == 'call':
        return 0xFF     # interface contract: a port-read tracer returns a byte
    if k == 'sel':
        return t[2][1] if isc(t[2]) and t[2][1] >= 0 else None
    if k in BOOLK:
        return 1
    if k == '>>' and isc(t[2]):
        m = mask_of(t[1])
        return None if m is None else m >> t[2][1]
    if k == '<<' and isc(t[2]):
        m = mask_of(t[1])
        return None if m is None else m << t[2][1]
    if k == 'rinc':
        return 0xFF
    if k == '*' and len(t) == 3 and isc(t[2]) and t[2][1] > 0 and t[2][1] & (t[2][1] - 1) == 0:
        m = mask_of(t[1])
        return None if m is None else m * t[2][1]
    if k == '+':
        acc = 0
        for x in t[1:]:
            mx = mask_of(x)
            if mx is None or (acc & mx):
                return None
            acc |= mx
        return acc
    return None

def mk(op, *a):
    a = list(a)
    if op in ('+', '-', '*', '//', '%', '&', '|', '^', '<<', '>>') or op in CMP:
        if len(a) == 2 and isc(a[0]) and isc(a[1]):
            try:
                return C(_fold2(op, a[0][1], a[1][1]))
            except (ZeroDivisionError, ValueError):
                pass
    if op == '%' and isc(a[1]) and a[1][1] > 0 and a[1][1] & (a[1][1] - 1) == 0:
        return mk('&', a[0], C(a[1][1] - 1))
    if op == '//' and isc(a[1]) and a[1][1] > 0 and a[1][1] & (a[1][1] - 1) == 0:
        return mk('>>', a[0], C(a[1][1].bit_length() - 1))
    if op == '-':
        if isc(a[1]):
            return mk('+', a[0], C(-a[1][1]))
        return mk('+', a[0], mk('*', a[1], C(-1)))
    if op == '<<' and isc(a[1]):
        return mk('*', a[0], C(1 << a[1][1]))
    if op == '>>':
        if isc(a[1]) and a[1][1] == 0:
            return a[0]
        # (x & M) >> k  with M == ((M >> k) << k) keeps form; (x*256+y)>>8 not simplified
        return ('>>', a[0], a[1])
    if op == '*':
        # bool * k -> sel
        if len(a) == 2:
            for x, y in ((a[0], a[1]), (a[1], a[0])):
                if x[0] in BOOLK and isc(y):
                    return mk_sel(x, y)
                if x[0] == 'sel' and isc(y) and isc(x[2]):
                    return mk_sel(x[1], C(x[2][1] * y[1]))
    if op in CMP:
        x, y = a
        if isc(x) and not isc(y):
            x, y, op = y, x, SWAP[op]
        # normalise  x >= c  -> x > c-1 ;  x <= c -> x < c+1
        if isc(y):
            if op == '>=':
                op, y = '>', C(y[1] - 1)
            elif op == '<=':
                op, y = '<', C(y[1] + 1)
            # truthiness forms: canonical is x itself for boolean-kinded x, else (x != 0)
            m = mask_of(x)
            if x[0] in BOOLK:
                if (op == '!=' and y[1] == 0) or (op == '==' and y[1] == 1) or (op == '>' and y[1] == 0): return x
                if (op == '==' and y[1] == 0) or (op == '!=' and y[1] == 1) or (op == '<' and y[1] == 1): return mk_not(x)
            elif m is not None and m in (0, 1):
                if (op == '==' and y[1] == 1) or (op == '>' and y[1] == 0): return ('!=', x, C(0))
                if (op == '!=' and y[1] == 1) or (op == '<' and y[1] == 1): return ('==', x, C(0))
        elif op in ('==', '!='):
            if key(x) > key(y):
                x, y = y, x
        elif op in ('>', '>='):
            x, y, op = y, x, SWAP[op]
        return (op, x, y)
    if op in COMM:
        flat = []
        for x in a:
            if x[0] == op:
                flat.extend(x[1:])
            else:
                flat.append(x)
        cs = [x for x in flat if isc(x)]
        rest = [x for x in flat if not isc(x)]
        v = None
        if cs:
            v = cs[0][1]
            for x in cs[1:]:
                v = _fold2(op, v, x[1])
        if op == '&' and v is not None:
            if v == 0:
                return C(0)
            # drop mask bits already implied by operands; absorb inner equal masks
            if v >= 0 and (v & (v + 1)) == 0:
                rest = [_absorb(x, v) for x in rest]
                # re-flatten in case absorption produced & terms
                rest2 = []
                for x in rest:
                    if x[0] == '&':
                        for y in x[1:]:
                            if isc(y): v &= y[1]
                            else: rest2.append(y)
                    elif isc(x):
                        v &= x[1]
                    else:
                        rest2.append(x)
                rest = rest2
            if len(rest) == 1:
                m = mask_of(rest[0])
                if m is not None and v >= 0 and (m & ~v) == 0:
                    return rest[0]
                if m is not None and v >= 0:
                    v &= m if m else v
                    if v == 0:
                        return C(0)
        if op == '&' and v is not None and v >= 0 and len(rest) == 1 and rest[0][0] in ('|', '^'):
            # distribute a constant mask over | and ^
            return mk(rest[0][0], *[mk('&', y, C(v)) for y in rest[0][1:]])
        if op == '*' and v == 0:
            return C(0)
        if op == '*' and v is not None and len(rest) == 1 and rest[0][0] == '+':
            # distribute constant over sums: k*(a+b) -> k*a + k*b
            return mk('+', *[mk('*', y, C(v)) for y in rest[0][1:]])
        if op == '*' and v is not None and len(rest) == 1 and rest[0][0] == 'sel' and isc(rest[0][2]):
            return mk_sel(rest[0][1], C(rest[0][2][1] * v))
        if op == '+':
            rest = _collect_sum(rest)
        if op in ('|', '^', '&'):
            # idempotence / self-inverse
            seen = []
            for x in rest:
                if x in seen:
                    if op == '^':
                        seen.remove(x)
                    continue
                seen.append(x)
            rest = seen
        ident = {'+': 0, '*': 1, '|': 0, '^': 0, '&': None}[op]
        if v is not None and v != ident:
            rest.append(C(v))
        if not rest:
            return C({'+': 0, '*': 1, '|': 0, '^': 0, '&': -1}[op] if v is None else v)
        if len(rest) == 1:
            return rest[0]
        return (op,) + tuple(sorted(rest, key=key))
    if op == 'not':
        return mk_not(a[0])
    if op in ('and', 'or'):
        return mk_bop(op, a)
    return (op,) + tuple(a)

def _collect_sum(rest):
    """x + x*(-1) -> 0 ; x*k1 + x*k2 -> x*(k1+k2)."""
    coef = {}
    order = []
    for x in rest:
        k = 1
        base = x
        if x[0] == '*' and isc(x[-1]) and len(x) == 3:
            base, k = x[1], x[-1][1]
        elif x[0] == '*' and isc(x[-1]):
            base, k = x[:-1], x[-1][1]
        if base not in coef:
            coef[base] = 0
            order.append(base)
        coef[base] += k
    out = []
    for b in order:
        k = coef[b]
        if k == 0:
            continue
        if k == 1:
            out.append(b)
        elif b[0] == '*':
            out.append(tuple(b) + (C(k),))
        else:
            out.append(('*', b, C(k)))
    return out

def _absorb(t, v):
    """Inside (... ) & v with v = 2^k-1: remove inner `& v'` (v' superset of v) from summands/products."""
    if t[0] == '&':
        cs = [y for y in t[1:] if isc(y)]
        if len(cs) == 1 and cs[0][1] >= 0 and (cs[0][1] & v) == v:
            rest = [y for y in t[1:] if not isc(y)]
            inner = rest[0] if len(rest) == 1 else ('&',) + tuple(rest)
            return _absorb(inner, v)
        return t
    if t[0] == '+':
        return mk('+', *[_absorb(y, v) for y in t[1:]])
    if t[0] == '*' and isc(t[-1]):
        return mk('*', *[_absorb(y, v) for y in t[1:]])
    if t[0] == 's8' and v <= 0xFFFF:
        return t
    return t

def mk_sel(cond, k):
    cond = mk_bool(cond)
    if isc(cond):
        return k if cond[1] else C(0)
    if isc(k) and k[1] == 0:
        return C(0)
    if isc(k) and k[1] == 1:
        return cond
    return ('sel', cond, k)

def mk_bool(x):
    """Truthiness of x as a boolean term."""
    if isc(x):
        return C(1 if x[1] else 0)
    if x[0] in BOOLK:
        return x
    if x[0] == 'sel':
        if isc(x[2]) and x[2][1] != 0:
            return x[1]
    # bool((y + c) & M) with y known to fit in M (M = 2^k-1)  ->  y != (-c mod 2^k)
    if x[0] == '&' and len(x) == 3 and isc(x[2]) and x[2][1] > 0 and (x[2][1] & (x[2][1] + 1)) == 0:
        m = x[2][1]
        y = x[1]
        if y[0] == '+' and isc(y[-1]):
            base = y[1] if len(y) == 3 else y[:-1]
            my = mask_of(base)
            if my is not None and (my & ~m) == 0:
                return mk('!=', base, C((-y[-1][1]) & m))
    # bool(a - b) -> a != b
    if x[0] == '+' and len(x) == 3:
        for a, b in ((x[1], x[2]), (x[2], x[1])):
            if b[0] == '*' and len(b) == 3 and b[2] == C(-1):
                return mk('!=', a, b[1])
    if x[0] == 'bool':
        return mk_bool(x[1])
    return ('!=', x, C(0))

def mk_not(x):
    x = mk_bool(x)
    if isc(x):
        return C(0 if x[1] else 1)
    if x[0] == 'not':
        return x[1]
    if x[0] in NEG:
        return mk(NEG[x[0]], x[1], x[2])
    if x[0] == 'and':
        return mk_bop('or', [mk_not(y) for y in x[1:]])
    if x[0] == 'or':
        return mk_bop('and', [mk_not(y) for y in x[1:]])
    return ('not', x)

def mk_bop(op, vals):
    flat = []
    for v in vals:
        v = mk_bool(v)
        if v[0] == op:
            flat.extend(v[1:])
        else:
            flat.append(v)
    out = []
    for v in flat:
        if isc(v):
            if op == 'and' and v[1] == 0: return C(0)
            if op == 'or' and v[1] != 0: return C(1)
            continue
        if v not in out:
            out.append(v)
    for v in out:
        if mk_not(v) in out:
            return C(0) if op == 'and' else C(1)
    if not out:
        return C(1 if op == 'and' else 0)
    if len(out) == 1:
        return out[0]
    return (op,) + tuple(sorted(out, key=key))

def mk_ite(c, a, b):
    c = mk_bool(c)
    if isc(c):
        return a if c[1] else b
    if a == b:
        return a
    if isc(a) and isc(b):
        if b[1] == 0:
            return mk_sel(c, a)
        if a[1] == 0:
            return mk_sel(mk_not(c), b)
    if c[0] == 'not':
        return mk_ite(c[1], b, a)
    # s8:  d < 128 ? d : d - 256     jr: d < 128 ? d + 2 : d - 254
    if c[0] == '<' and c[2] == C(128):
        d = c[1]
        if a == d and b == mk('+', d, C(-256)):
            return ('s8', d)
        for k in range(0, 8):
            if a == mk('+', d, C(k)) and b == mk('+', d, C(k - 256)):
                return mk('+', ('s8', d), C(k))
    return ('ite', c, a, b)

def mk_idx(base, i):
    if base[0] == 'tuple' and isc(i) and 0 <= i[1] < len(base) - 1:
        return base[1 + i[1]]
    if base == ('T', 'R1'): return ('rinc', i, 1)
    if base == ('T', 'R2'): return ('rinc', i, 2)
    if base == ('T', 'OFFSETS'): return ('s8', i)
    if base == ('T', 'JR_OFFSETS'): return mk('+', ('s8', i), C(2))
    return ('idx', base, i)

def post(t):
    """Second-pass rewrites applied bottom-up to a finished term."""
    if not isinstance(t, tuple) or not t:
        return t
    if t[0] in ('c', 'reg', 'sym', 'T'):
        return t
    t = tuple(post(x) if isinstance(x, tuple) else x for x in t)
    k = t[0]
    # C: (x & 128) + ((x + n) & 127)  -> rinc(x, n)
    if k == '+' and len(t) == 3:
        for a, b in ((t[1], t[2]), (t[2], t[1])):
            if a[0] == '&' and len(a) == 3 and a[2] == C(128) and b[0] == '&' and len(b) == 3 and b[2] == C(127):
                x = a[1]
                inner = b[1]
                if inner[0] == '+' and x in inner[1:]:
                    rest = [y for y in inner[1:] if y != x]
                    if len(rest) == 1 and isc(rest[0]):
                        return ('rinc', x, rest[0][1])
    if k in COMM or k in CMP or k in ('>>', '<<', '//', '%'):
        return mk(k, *t[1:])
    if k == 'ite':
        return mk_ite(*t[1:])
    if k == 'sel':
        return mk_sel(t[1], t[2])
    if k == 'idx':
        return mk_idx(t[1], t[2])
    if k in ('and', 'or'):
        return mk_bop(k, t[1:])
    if k == 'not':
        return mk_not(t[1])
    if k == 'bool':
        return mk_bool(t[1])
    return t

def subst(t, mapping):
    """Replace sub-terms by mapping (exact structural match), renormalising."""
    if t in mapping:
        return mapping[t]
    if not isinstance(t, tuple) or t[0] in ('c', 'reg', 'sym', 'T'):
        return t
    new = tuple(subst(x, mapping) if isinstance(x, tuple) else x for x in t)
    if new == t:
        return t
    return post(new)

def walk(t):
    yield t
    if isinstance(t, tuple) and t and t[0] not in ('c', 'reg', 'sym', 'T'):
        for x in t[1:]:
            if isinstance(x, tuple):
                yield from walk(x)

def show(t, depth=0):
    """Readable rendering of a term."""
    if not isinstance(t, tuple):
        return str(t)
    k = t[0]
    if k == 'c':
        return hex(t[1]) if abs(t[1]) > 9 else str(t[1])
    if k == 'reg':
        return 'r%d' % t[1]
    if k in ('sym', 'T'):
        return str(t[1])
    if k == 'mem':
        return 'mem%s[%s]' % ('' if not t[2] else "'" * t[2], show(t[1]))
    if k == 'idx':
        return '%s[%s]' % (show(t[1]), show(t[2]))
    if k in COMM or k in CMP or k in ('>>', '<<', '//', '%', 'and', 'or'):
        return '(' + (' %s ' % k).join(show(x) for x in t[1:]) + ')'
    return '%s(%s)' % (k, ', '.join(show(x) if isinstance(x, tuple) else str(x) for x in t[1:]))
