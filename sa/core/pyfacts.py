"""Python facts: parsed modules of /repo/skoolkit, module-level constants, class/method index,
literal-table evaluation that follows names to their single module-level definition."""
import ast, os

class FactError(Exception):
    """An anchor (file, class, function, table) the analysis relies on is missing."""

class Module:
    def __init__(self, repo, name):
        self.repo = repo
        self.name = name
        self.path = os.path.join(repo, 'skoolkit', name + '.py')
        if not os.path.exists(self.path):
            raise FactError('module skoolkit/%s.py not found' % name)
        with open(self.path) as f:
            self.src = f.read()
        self.tree = ast.parse(self.src, self.path)
        from . import canon
        self.renamed = canon.normalise(name, self.tree)          # locals renamed back to the names the pinned tree uses (see canon.py)
        self.relpath = 'skoolkit/%s.py' % name
        self.assigns = {}      # name -> list of value nodes at module level
        self.funcs = {}
        self.classes = {}
        self.imports = {}      # local name -> (module, original name)
        for n in self.tree.body:
            if isinstance(n, ast.Assign):
                for t in n.targets:
                    if isinstance(t, ast.Name):
                        self.assigns.setdefault(t.id, []).append(n.value)
                    elif isinstance(t, ast.Tuple) and isinstance(n.value, ast.Tuple) and len(t.elts) == len(n.value.elts):
                        for a, b in zip(t.elts, n.value.elts):
                            if isinstance(a, ast.Name):
                                self.assigns.setdefault(a.id, []).append(b)
                    elif isinstance(t, ast.Tuple) and all(isinstance(a, ast.Name) for a in t.elts):
                        # A, B, C = (f(x) for x in ...) / = range(3): each name is element i of the unpacked value
                        for i, a in enumerate(t.elts):
                            sub = ast.Subscript(value=ast.Call(func=ast.Name(id='tuple', ctx=ast.Load()), args=[n.value], keywords=[]), slice=ast.Constant(value=i), ctx=ast.Load())
                            self.assigns.setdefault(a.id, []).append(ast.copy_location(ast.fix_missing_locations(sub), n))
            elif isinstance(n, ast.FunctionDef):
                self.funcs[n.name] = n
            elif isinstance(n, ast.ClassDef):
                self.classes[n.name] = n
            elif isinstance(n, ast.ImportFrom) and n.module:
                for a in n.names:
                    self.imports[a.asname or a.name] = (n.module, a.name)

    def cls(self, name):
        if name not in self.classes:
            raise FactError('class %s not found in %s' % (name, self.relpath))
        return self.classes[name]

    def methods(self, clsname):
        return {f.name: f for f in self.cls(clsname).body if isinstance(f, ast.FunctionDef)}

    def method(self, clsname, name):
        m = self.methods(clsname)
        if name not in m:
            raise FactError('method %s.%s not found in %s' % (clsname, name, self.relpath))
        return m[name]

    def func(self, name):
        if name not in self.funcs:
            raise FactError('function %s not found in %s' % (name, self.relpath))
        return self.funcs[name]

    def class_assigns(self, clsname):
        out = {}
        for n in self.cls(clsname).body:
            if isinstance(n, ast.Assign):
                for t in n.targets:
                    if isinstance(t, ast.Name):
                        out[t.id] = n.value
        return out

class Repo:
    def __init__(self, root):
        self.root = root
        self._mods = {}

    def mod(self, name):
        if name not in self._mods:
            self._mods[name] = Module(self.root, name)
        return self._mods[name]

    def all_modules(self):
        names = sorted(f[:-3] for f in os.listdir(os.path.join(self.root, 'skoolkit')) if f.endswith('.py'))
        return [self.mod(n) for n in names]

    def resolve(self, modname, name, depth=0):
        """Follow `name` in module `modname` through imports to (Module, value node)."""
        m = self.mod(modname)
        if name in m.assigns:
            vals = m.assigns[name]
            return m, vals[-1]
        if name in m.imports and depth < 5:
            src, orig = m.imports[name]
            if src.startswith('skoolkit.'):
                return self.resolve(src.split('.', 1)[1], orig, depth + 1)
            if src == 'skoolkit':
                return self.resolve('__init__', orig, depth + 1)
        return None, None

    def const(self, modname, name):
        """Integer/str/tuple constant value of a module-level name (or None)."""
        m, node = self.resolve(modname, name)
        if node is None:
            return None
        try:
            return Lit(self, m.name).ev(node)
        except NotLiteral:
            return None

class NotLiteral(Exception):
    """Raised when an expression cannot be folded; an AST node argument is rendered only when the message is needed."""
    def __str__(self):
        a = self.args[0] if self.args else ''
        return ast.dump(a)[:80] if isinstance(a, ast.AST) else str(a)

class _FoldedNone:
    """A folded call that legitimately returned None (hooks use None for 'not handled')."""
def _next(it, *default):
    """next() for the evaluator: generator expressions are evaluated eagerly into tuples, so a tuple / list stands for a fresh iterator."""
    if isinstance(it, (tuple, list)):
        it = iter(it)
    return next(it, *default)

FOLDED_NONE = _FoldedNone()

_BIN = {ast.Add: lambda a, b: a + b, ast.Sub: lambda a, b: a - b, ast.Mult: lambda a, b: a * b,
        ast.FloorDiv: lambda a, b: a // b, ast.Mod: lambda a, b: a % b, ast.BitAnd: lambda a, b: a & b,
        ast.BitOr: lambda a, b: a | b, ast.BitXor: lambda a, b: a ^ b, ast.LShift: lambda a, b: a << b,
        ast.RShift: lambda a, b: a >> b, ast.Pow: lambda a, b: a ** b, ast.Div: lambda a, b: a / b}
import operator as _op
_IBIN = {ast.Add: _op.iadd, ast.Sub: _op.isub, ast.Mult: _op.imul, ast.FloorDiv: _op.ifloordiv, ast.Mod: _op.imod, ast.BitAnd: _op.iand, ast.BitOr: _op.ior,
         ast.BitXor: _op.ixor, ast.LShift: _op.ilshift, ast.RShift: _op.irshift, ast.Pow: _op.ipow, ast.Div: _op.itruediv}
_CMP = {ast.Eq: lambda a, b: a == b, ast.NotEq: lambda a, b: a != b, ast.Lt: lambda a, b: a < b,
        ast.LtE: lambda a, b: a <= b, ast.Gt: lambda a, b: a > b, ast.GtE: lambda a, b: a >= b,
        ast.In: lambda a, b: a in b, ast.NotIn: lambda a, b: a not in b, ast.Is: lambda a, b: a is b, ast.IsNot: lambda a, b: a is not b}

class Lit:
    """Evaluator for literal displays and closed pure expressions (no calls except a few pure
    builtins on literals, no attribute access). This is constant folding, not execution of repository code."""
    PURE = {'range': range, 'len': len, 'tuple': tuple, 'list': list, 'dict': dict, 'set': set, 'frozenset': frozenset,
            'min': min, 'max': max, 'sum': sum, 'abs': abs, 'int': int, 'str': str, 'bool': bool, 'chr': chr, 'ord': ord,
            'bytes': bytes, 'bytearray': bytearray, 'sorted': sorted, 'enumerate': enumerate, 'zip': zip, 'any': any, 'all': all,
            'reversed': reversed, 'divmod': divmod, 'round': round, 'next': _next, 'iter': iter, 'repr': repr, 'hex': hex, 'callable': callable, 'id': id, 'bin': bin, 'map': map, 'filter': filter,
            'reduce': __import__('functools').reduce, 'xor': __import__('operator').xor, 'or_': __import__('operator').or_, 'and_': __import__('operator').and_, 'add': __import__('operator').add, 'mul': __import__('operator').mul, 'itemgetter': __import__('operator').itemgetter}

    def __init__(self, repo, modname, env=None, opaque=None):
        self.repo = repo
        self.modname = modname
        self.env = dict(env or {})
        self.opaque = opaque   # callable(node) -> value for otherwise unevaluable nodes (or None)

    def ev(self, n):
        if isinstance(n, ast.Constant):
            return n.value
        if isinstance(n, ast.Name):
            if n.id in self.env:
                return self.env[n.id]
            if self.opaque is not None and n.id in getattr(self.opaque, 'override_names', ()):
                try:
                    return self._opaque(n)
                except NotLiteral:
                    pass          # overridden in another module only: resolve normally here
            m, node = self.repo.resolve(self.modname, n.id)
            if node is not None:
                return Lit(self.repo, m.name, opaque=self.opaque).ev(node)
            if n.id in ('True', 'False', 'None'):
                return {'True': True, 'False': False, 'None': None}[n.id]
            if n.id in self.PURE:
                try:
                    return self._opaque(n)
                except NotLiteral:
                    return self.PURE[n.id]          # a pure builtin used as a value (map(chr, ...), key=len)
            return self._opaque(n)
        if isinstance(n, ast.Tuple):
            return tuple(self._seq(n.elts))
        if isinstance(n, ast.List):
            return list(self._seq(n.elts))
        if isinstance(n, ast.Set):
            return set(self._seq(n.elts))
        if isinstance(n, ast.Dict):
            out = {}
            for k, v in zip(n.keys, n.values):
                if k is None:
                    out.update(self.ev(v))
                else:
                    out[self.ev(k)] = self.ev(v)
            return out
        if isinstance(n, ast.BinOp) and type(n.op) in _BIN:
            return _BIN[type(n.op)](self.ev(n.left), self.ev(n.right))
        if isinstance(n, ast.UnaryOp):
            v = self.ev(n.operand)
            if isinstance(n.op, ast.USub): return -v
            if isinstance(n.op, ast.Not): return not v
            if isinstance(n.op, ast.Invert): return ~v
            if isinstance(n.op, ast.UAdd): return +v
        if isinstance(n, ast.BoolOp):
            if isinstance(n.op, ast.And):
                v = True
                for x in n.values:
                    v = self.ev(x)
                    if not v:
                        return v
                return v
            v = False
            for x in n.values:
                v = self.ev(x)
                if v:
                    return v
            return v
        if isinstance(n, ast.Compare):
            left = self.ev(n.left)
            for op, c in zip(n.ops, n.comparators):
                right = self.ev(c)
                if type(op) not in _CMP or not _CMP[type(op)](left, right):
                    return False
                left = right
            return True
        if isinstance(n, ast.IfExp):
            return self.ev(n.body) if self.ev(n.test) else self.ev(n.orelse)
        if isinstance(n, ast.Subscript):
            base = self.ev(n.value)
            if isinstance(n.slice, ast.Slice):
                lo = self.ev(n.slice.lower) if n.slice.lower else None
                hi = self.ev(n.slice.upper) if n.slice.upper else None
                st = self.ev(n.slice.step) if n.slice.step else None
                return base[lo:hi:st]
            return base[self.ev(n.slice)]
        if isinstance(n, ast.JoinedStr):
            parts = []
            for v in n.values:
                if isinstance(v, ast.Constant):
                    parts.append(v.value)
                else:
                    val = self.ev(v.value)
                    spec = self.ev(v.format_spec) if v.format_spec else ''
                    if v.conversion == 114: val = repr(val)
                    elif v.conversion == 115: val = str(val)
                    parts.append(format(val, spec))
            return ''.join(parts)
        if isinstance(n, (ast.ListComp, ast.GeneratorExp, ast.SetComp, ast.DictComp)):
            return self._comp(n)
        if isinstance(n, ast.Call):
            if isinstance(n.func, ast.Name) and n.func.id in self.PURE and not n.keywords:
                return self.PURE[n.func.id](*self._seq(n.args))
            if isinstance(n.func, ast.Attribute) and isinstance(n.func.value, ast.Name) and n.func.value.id == 're' and n.func.value.id not in self.env \
               and n.func.attr in ('split', 'sub', 'match', 'fullmatch', 'findall', 'search', 'compile', 'escape', 'finditer', 'subn') and not n.keywords:
                import re as _re
                args = self._seq(n.args)
                if all(isinstance(a, (str, int)) for a in args):
                    return getattr(_re, n.func.attr)(*args)      # standard-library primitive on literal arguments
            if isinstance(n.func, ast.Name) and n.func.id not in self.env and n.func.id not in self.PURE:
                m_, node_ = self.repo.resolve(self.modname, n.func.id)
                if isinstance(node_, ast.Call) and isinstance(node_.func, ast.Name) and node_.func.id == 'namedtuple':
                    cls_ = Lit(self.repo, m_.name).ev(node_)
                    return cls_(*self._seq(n.args), **self._kw(n.keywords))
            if isinstance(n.func, ast.Name) and n.func.id == 'namedtuple' and n.func.id not in self.env and len(n.args) == 2 and not n.keywords:
                import collections
                return collections.namedtuple(*self._seq(n.args))      # standard-library primitive on literal arguments
            if isinstance(n.func, ast.Attribute) and isinstance(n.func.value, ast.Name) and n.func.value.id == 'html' and 'html' not in self.env and n.func.attr in ('escape', 'unescape'):
                import html as _html
                return getattr(_html, n.func.attr)(*self._seq(n.args), **self._kw(n.keywords))
            if isinstance(n.func, ast.Attribute) and isinstance(n.func.value, ast.Name) and n.func.value.id == 'bisect' and 'bisect' not in self.env \
               and n.func.attr in ('bisect', 'bisect_left', 'bisect_right', 'insort', 'insort_left', 'insort_right'):
                import bisect as _bisect
                return getattr(_bisect, n.func.attr)(*self._seq(n.args), **self._kw(n.keywords))      # standard-library primitive
            if isinstance(n.func, ast.Name) and n.func.id == 'defaultdict' and n.func.id not in self.env and n.args and not n.keywords:
                import collections
                if isinstance(n.args[0], ast.Name) and n.args[0].id in ('list', 'int', 'dict', 'set', 'str') and n.args[0].id not in self.env:
                    return collections.defaultdict(self.PURE.get(n.args[0].id, str), *self._seq(n.args[1:]))      # library primitive, builtin factory
                fac = self.ev(n.args[0])
                if getattr(fac, '_sa_fold_ok', False) and callable(fac):
                    return collections.defaultdict(fac, *self._seq(n.args[1:]))                                   # factory is a folded lambda
            if isinstance(n.func, ast.Name) and n.func.id == 'eval' and len(n.args) == 1:
                src = self.ev(n.args[0])
                if isinstance(src, str):
                    tree = ast.parse(src, mode='eval').body          # SyntaxError propagates as in CPython
                    for x in ast.walk(tree):
                        if isinstance(x, ast.Name):
                            raise NameError("name '%s' is not defined" % x.id)      # eval() of text with a free name
                        if not isinstance(x, (ast.BinOp, ast.UnaryOp, ast.Constant, ast.operator, ast.unaryop, ast.expr_context, ast.Compare, ast.BoolOp, ast.cmpop, ast.boolop)):
                            raise NotLiteral('eval of non-arithmetic text')
                    try:
                        return Lit(self.repo, self.modname).ev(tree)
                    except ZeroDivisionError:
                        raise ValueError('division by zero')
            if isinstance(n.func, ast.Attribute) and n.func.attr in ('format', 'join', 'upper', 'lower', 'count', 'items', 'keys', 'values', 'get', 'split', 'strip', 'replace', 'startswith', 'endswith', 'isspace', 'isdigit', 'partition', 'rpartition', 'index', 'find', 'ljust', 'rjust', 'zfill', 'isalpha', 'title', 'lstrip', 'rstrip', 'isalnum', 'isidentifier', 'isupper', 'islower', 'capitalize', 'swapcase', 'center', 'splitlines', 'casefold', 'removeprefix', 'removesuffix', 'rsplit', 'rfind', 'rindex', 'isnumeric', 'isdecimal', 'translate', 'expandtabs', 'encode', 'decode', 'hex', 'intersection', 'union', 'difference', 'issubset', 'issuperset', 'isdisjoint', 'symmetric_difference'):
                base = self.ev(n.func.value)
                if isinstance(base, (str, dict, tuple, list, bytes, bytearray, set, frozenset)):
                    args = self._seq(n.args)
                    kw = self._kw(n.keywords)
                    return getattr(base, n.func.attr)(*args, **kw)
            if isinstance(n.func, ast.Attribute) and n.func.attr in ('append', 'extend', 'pop', 'clear', 'insert', 'setdefault', 'update', 'write', 'add', 'discard', 'remove', 'copy', 'reverse', 'sort', 'popitem'):
                try:
                    base = self.ev(n.func.value)
                except NotLiteral:
                    base = None
                if isinstance(base, (list, dict, set, bytearray)) or (getattr(base, '_sa_fold_ok', False) and hasattr(base, n.func.attr)):
                    args = self._seq(n.args)
                    return getattr(base, n.func.attr)(*args, **self._kw(n.keywords))
            if isinstance(n.func, ast.Attribute):
                # methods of model objects supplied by the checker (not repository instances), of re.Match and of named tuples
                try:
                    base = self.ev(n.func.value)
                except NotLiteral:
                    base = None
                if base is not None:
                    import re as _re
                    if (getattr(base, '_sa_model', False) and callable(getattr(base, n.func.attr, None))) or \
                       (isinstance(base, _re.Match) and n.func.attr in ('group', 'groups', 'start', 'end', 'span', 'groupdict')) or \
                       (isinstance(base, _re.Pattern) and n.func.attr in ('search', 'match', 'fullmatch', 'findall', 'sub', 'split', 'finditer')) or \
                       (isinstance(base, tuple) and hasattr(base, '_fields') and n.func.attr in ('_replace', '_asdict')):
                        return getattr(base, n.func.attr)(*self._seq(n.args), **self._kw(n.keywords))
            return self._opaque(n)
        if isinstance(n, ast.Attribute):
            try:
                base = self._opaque(n)
                return base
            except NotLiteral:
                pass
            base = self.ev(n.value)
            if getattr(base, '_sa_fold_ok', False) and hasattr(base, n.attr):
                return getattr(base, n.attr)
            if isinstance(base, tuple) and n.attr in getattr(base, '_fields', ()):
                return getattr(base, n.attr)
            if isinstance(base, BaseException) and n.attr == 'args':
                return base.args
            if base is None and not n.attr.startswith('__'):
                raise AttributeError("'NoneType' object has no attribute '%s'" % n.attr)
            raise NotLiteral('attribute ' + n.attr)
        if isinstance(n, ast.Starred):
            raise NotLiteral('starred')
        return self._opaque(n)

    def _seq(self, elts):
        out = []
        for e in elts:
            if isinstance(e, ast.Starred):
                out.extend(self.ev(e.value))
            else:
                out.append(self.ev(e))
        return out

    def _kw(self, keywords):
        out = {}
        for k in keywords:
            if k.arg is None:
                out.update(self.ev(k.value))          # **mapping
            else:
                out[k.arg] = self.ev(k.value)
        return out

    def _comp(self, n):
        results = []
        def rec(i, env):
            if i == len(n.generators):
                sub = Lit(self.repo, self.modname, env, self.opaque)
                if isinstance(n, ast.DictComp):
                    results.append((sub.ev(n.key), sub.ev(n.value)))
                else:
                    results.append(sub.ev(n.elt))
                return
            g = n.generators[i]
            sub = Lit(self.repo, self.modname, env, self.opaque)
            for item in sub.ev(g.iter):
                e2 = dict(env)
                _bind(g.target, item, e2)
                s2 = Lit(self.repo, self.modname, e2, self.opaque)
                if all(s2.ev(c) for c in g.ifs):
                    rec(i + 1, e2)
        rec(0, self.env)
        if isinstance(n, ast.DictComp):
            return dict(results)
        if isinstance(n, ast.SetComp):
            return set(results)
        if isinstance(n, ast.GeneratorExp):
            return tuple(results)
        return results

    def _opaque(self, n):
        if self.opaque is not None:
            if getattr(self.opaque, 'wants_lit', False):
                v = self.opaque(n, self)
            else:
                v = self.opaque(n)
            if v is FOLDED_NONE:
                return None
            if v is not None:
                return v
        raise NotLiteral(n)

def _bind(target, value, env):
    if isinstance(target, ast.Name):
        env[target.id] = value
    elif isinstance(target, (ast.Tuple, ast.List)):
        vals = list(value)
        for t, v in zip(target.elts, vals):
            _bind(t, v, env)
    else:
        raise NotLiteral('bind target')

def loc(mod, node):
    return '%s:%d' % (mod.relpath, getattr(node, 'lineno', 0))

class ModuleFold:
    """Constant folding of module-level initialisation code (assignments, for-loops over literal ranges,
    subscript / slice stores into literal lists).  Used for tables that are built by loops rather than displays."""
    def __init__(self, repo, modname, env=None, opaque=None):
        self.repo, self.modname = repo, modname
        self.env = dict(env or {})
        self.opaque = opaque

    def exec(self, stmts):
        for st in stmts:
            self.stmt(st)
        return self.env

    def run(self, stmts, wanted):
        """Fold the module-level statements that define or update the names in `wanted`."""
        for st in stmts:
            names = {n.id for n in ast.walk(st) if isinstance(n, ast.Name)}
            if isinstance(st, (ast.Assign, ast.For, ast.AugAssign)) and names & set(wanted):
                self.stmt(st)
        return {k: self.env.get(k) for k in wanted}

    def lit(self):
        return Lit(self.repo, self.modname, self.env, self.opaque)

    def stmt(self, st):
        if isinstance(st, ast.Assign):
            v = self.lit().ev(st.value)
            for tg in st.targets:
                self.store(tg, v)
        elif isinstance(st, ast.Try):
            try:
                for s in st.body:
                    self.stmt(s)
            except (KeyError, IndexError, ValueError, TypeError, NameError, SyntaxError, ZeroDivisionError, OverflowError, AttributeError) as e:
                names = getattr(e, 'mro_names', None) or [c.__name__ for c in type(e).__mro__]
                for h in st.handlers:
                    if h.type is None:
                        hnames = None
                    else:
                        elts = h.type.elts if isinstance(h.type, ast.Tuple) else [h.type]
                        hnames = [ast.unparse(x).split('.')[-1] for x in elts]
                    if hnames is None or any(x in names for x in hnames):
                        if h.name:
                            self.env[h.name] = e
                        prev, self._cur_exc = getattr(self, '_cur_exc', None), e
                        try:
                            for s in h.body:
                                self.stmt(s)
                        finally:
                            self._cur_exc = prev
                        break
                else:
                    raise
            else:
                for s in st.orelse:
                    self.stmt(s)
            finally:
                if st.finalbody:
                    for s in st.finalbody:
                        self.stmt(s)
        elif isinstance(st, ast.AugAssign):
            cur = self.lit().ev(st.target)
            v = _IBIN[type(st.op)](cur, self.lit().ev(st.value))        # in-place operator semantics (list += iterable extends)
            self.store(st.target, v)
        elif isinstance(st, ast.For):
            broke = False
            for item in self.lit().ev(st.iter):
                _bind(st.target, item, self.env)
                try:
                    for s in st.body:
                        self.stmt(s)
                except _Continue:
                    continue
                except _Break:
                    broke = True
                    break
            if not broke:
                for s in st.orelse:
                    self.stmt(s)
        elif isinstance(st, ast.If):
            for s in (st.body if self.lit().ev(st.test) else st.orelse):
                self.stmt(s)
        elif isinstance(st, ast.Pass):
            pass
        elif isinstance(st, ast.Expr):
            if isinstance(st.value, ast.Call):
                f_ = st.value.func
                if isinstance(f_, ast.Name) and f_.id in ('print',):
                    return
                self.lit().ev(st.value)       # mutating call on a folded container (append/extend/...) or a folded function
        elif isinstance(st, ast.With):
            for item in st.items:
                v = self.lit().ev(item.context_expr)
                if item.optional_vars is not None:
                    self.store(item.optional_vars, v)
            for s in st.body:
                self.stmt(s)
        elif isinstance(st, ast.Delete):
            for tg in st.targets:
                if isinstance(tg, ast.Subscript):
                    base = self.lit().ev(tg.value)
                    if isinstance(tg.slice, ast.Slice):
                        lo = self.lit().ev(tg.slice.lower) if tg.slice.lower else None
                        hi = self.lit().ev(tg.slice.upper) if tg.slice.upper else None
                        del base[lo:hi]
                    else:
                        del base[self.lit().ev(tg.slice)]
                elif isinstance(tg, ast.Name):
                    self.env.pop(tg.id, None)
                else:
                    raise NotLiteral('del target')
        elif isinstance(st, (ast.Global, ast.Nonlocal)):
            mg = getattr(self.opaque, 'modglobals', None)
            if mg is None or isinstance(st, ast.Nonlocal):
                raise NotLiteral('statement ' + type(st).__name__)
            self.global_names = getattr(self, 'global_names', set()) | set(st.names)
            mg.setdefault(self.modname, {})
        elif isinstance(st, ast.Break):
            raise _Break()
        elif isinstance(st, ast.Continue):
            raise _Continue()
        elif isinstance(st, ast.Raise):
            if st.exc is None:
                if getattr(self, '_cur_exc', None) is not None:
                    raise self._cur_exc
                raise NotLiteral('bare raise outside a handler')
            name = ast.unparse(st.exc).split('(')[0]
            import builtins
            b = getattr(builtins, name, None)
            args = []
            if isinstance(st.exc, ast.Call):
                try:
                    args = self.lit()._seq(st.exc.args)
                except NotLiteral:
                    args = ['raised by folded code']
            if isinstance(b, type) and issubclass(b, BaseException):
                raise b(*args)
            exc = FoldedRaise(*args)
            exc.clsname = name
            exc.mro_names = exc_names(self.repo, self.modname, name)
            raise exc
        elif isinstance(st, ast.While):
            n = 0
            while self.lit().ev(st.test):
                try:
                    for s in st.body:
                        self.stmt(s)
                except _Continue:
                    pass
                except _Break:
                    break
                n += 1
                if n > 1000000:
                    raise NotLiteral('loop bound')
        else:
            raise NotLiteral('statement ' + type(st).__name__)

    def store(self, tg, v):
        if isinstance(tg, ast.Name):
            if tg.id in getattr(self, 'global_names', ()):
                self.opaque.modglobals[self.modname][tg.id] = v
                self.opaque.override_names.add(tg.id)
                return
            self.env[tg.id] = v
        elif isinstance(tg, ast.Subscript):
            base = self.lit().ev(tg.value)
            if isinstance(tg.slice, ast.Slice):
                lo = self.lit().ev(tg.slice.lower) if tg.slice.lower else None
                hi = self.lit().ev(tg.slice.upper) if tg.slice.upper else None
                base[lo:hi] = v
            else:
                base[self.lit().ev(tg.slice)] = v
        elif isinstance(tg, (ast.Tuple, ast.List)):
            for t, x in zip(tg.elts, v):
                self.store(t, x)
        elif isinstance(tg, ast.Attribute) and isinstance(tg.value, ast.Name) and tg.value.id == 'self' and getattr(self, 'attrs', None) is not None:
            self.attrs[tg.attr] = v
        elif isinstance(tg, ast.Attribute):
            base = self.lit().ev(tg.value)
            if not getattr(base, '_sa_fold_ok', False):
                raise NotLiteral('store target')
            setattr(base, tg.attr, v)
        else:
            raise NotLiteral('store target')

class FoldedRaise(ValueError):
    _sa_fold_ok = True
    """An exception class of the repository raised by folded code (modelled as a ValueError subclass: handlers that name it, or
    `Exception`, catch it; handlers naming unrelated repository classes are matched by name below)."""

def exc_names(repo, modname, clsname, depth=0):
    """Names of the classes a repository exception class derives from (itself first), following imports between repository modules."""
    import builtins
    out = [clsname]
    if depth > 8:
        return out
    try:
        mod = repo.mod(modname)
    except FactError:
        return out
    if clsname in mod.classes:
        for b in mod.classes[clsname].bases:
            bn = ast.unparse(b).split('.')[-1]
            bb = getattr(builtins, bn, None)
            if isinstance(bb, type) and issubclass(bb, BaseException):
                out += [c.__name__ for c in bb.__mro__]
            else:
                out += exc_names(repo, modname, bn, depth + 1)
    elif clsname in mod.imports:
        src, orig = mod.imports[clsname]
        m2 = '__init__' if src == 'skoolkit' else (src.split('.', 1)[1] if src.startswith('skoolkit.') else None)
        if m2 is not None:
            out = exc_names(repo, m2, orig, depth + 1)
            if out and out[0] != clsname:
                out = [clsname] + out
    return out

class _Break(Exception):
    pass

class _Continue(Exception):
    pass

class _Return(Exception):
    def __init__(self, value):
        self.value = value

class FuncFold(ModuleFold):
    """Fold a small pure function (Assign / AugAssign / If / Return) on concrete arguments.  A generator function is folded eagerly:
    its yielded values are collected and handed back as an iterator (its consumers here are finite loops, list() and next())."""
    yields = None
    def stmt(self, st):
        if isinstance(st, ast.Return):
            raise _Return(self.lit().ev(st.value) if st.value is not None else None)
        if isinstance(st, ast.FunctionDef) and self.opaque is not None and getattr(self.opaque, 'wants_lit', False):
            class _E:          # hands the live environment (not a copy) to the hook that builds the closure
                pass
            e = _E()
            e.env = self.env
            v = self.opaque(st, e)
            if v is None:
                raise NotLiteral('nested function')
            self.env[st.name] = v
            return
        if isinstance(st, ast.Expr) and isinstance(st.value, ast.Yield) and self.yields is not None:
            self.yields.append(self.lit().ev(st.value.value) if st.value.value is not None else None)
            if len(self.yields) > 200000:
                raise NotLiteral('generator bound')
            return
        return super().stmt(st)

    def call(self, fn, env):
        self.env = dict(env)
        own = []
        def collect(n):
            for c in ast.iter_child_nodes(n):
                if isinstance(c, (ast.FunctionDef, ast.Lambda, ast.ClassDef)):
                    continue
                own.append(c)
                collect(c)
        if getattr(fn, '_sa_is_gen', None) is None:
            collect(fn)
            fn._sa_is_gen = any(isinstance(x, (ast.Yield, ast.YieldFrom)) for x in own)
        if fn._sa_is_gen:
            self.yields = []
        try:
            for st in fn.body:
                if isinstance(st, ast.Expr) and isinstance(st.value, ast.Constant):
                    continue
                self.stmt(st)
        except _Return as r:
            if self.yields is not None:
                return iter(self.yields)
            return r.value
        if self.yields is not None:
            return iter(self.yields)
        return None


class ModFolder:
    """Fold calls between the module-level functions of one module (pure functions over literals)."""
    def __init__(self, repo, modname, extra=None, global_hook=None):
        self.repo, self.modname = repo, modname
        self.mod = repo.mod(modname)
        self.extra = extra or {}
        self.global_hook = global_hook      # consulted first, inherited by cross-module calls

    def hook(self):
        def f(n, lit):
            if self.global_hook is not None:
                v = self.global_hook(n, lit)
                if v is not None:
                    return v
            if isinstance(n, ast.Name) and n.id in self.mod.funcs:
                return ('f', n.id)
            if isinstance(n, ast.Name) and n.id in self.extra:
                return self.extra[n.id]
            if isinstance(n, ast.Name) and n.id in self.mod.imports:
                src, orig = self.mod.imports[n.id]
                m2 = '__init__' if src == 'skoolkit' else (src.split('.', 1)[1] if src.startswith('skoolkit.') else None)
                if m2 is not None:
                    try:
                        if orig in self.repo.mod(m2).funcs:
                            return ('fx', m2, orig)
                    except FactError:
                        pass
            if isinstance(n, ast.Call) and isinstance(n.func, ast.Name):
                try:
                    target = lit.ev(n.func)
                except NotLiteral:
                    return None
                kw = lit._kw(n.keywords)
                if isinstance(target, tuple) and len(target) == 2 and target[0] == 'f':
                    r = self.call(target[1], lit._seq(n.args), kw)
                    return FOLDED_NONE if r is None else r
                if isinstance(target, tuple) and len(target) == 3 and target[0] == 'fx':
                    r = ModFolder(self.repo, target[1], global_hook=self.global_hook).call(target[2], lit._seq(n.args), kw)
                    return FOLDED_NONE if r is None else r
            return None
        f.wants_lit = True
        return f

    def call(self, name, args, kw=None):
        fn = self.mod.funcs[name]
        params = [a.arg for a in fn.args.args]
        defaults = fn.args.defaults
        env = dict(zip(params, args))
        env.update(kw or {})
        for p, d in zip(params[len(params) - len(defaults):], defaults):
            if p not in env:
                env[p] = Lit(self.repo, self.modname).ev(d)
        ff = FuncFold(self.repo, self.modname, {}, self.hook())
        return ff.call(fn, env)


class ObjFolder:
    """Fold methods of one class on a model object whose attributes live in `attrs` (pure methods over literals)."""
    def __init__(self, repo, modname, clsname, attrs=None, extra_hook=None):
        self.repo, self.modname, self.clsname = repo, modname, clsname
        self.mod = repo.mod(modname)
        self.methods = self.mod.methods(clsname)
        self.attrs = dict(attrs or {})
        self.extra_hook = extra_hook

    def hook(self):
        def f(n, lit):
            if self.extra_hook is not None:
                v = self.extra_hook(n, lit, self)
                if v is not None:
                    return v
            if isinstance(n, ast.Attribute) and isinstance(n.value, ast.Name) and n.value.id == 'self':
                if n.attr in self.attrs:
                    return self.attrs[n.attr]
                if n.attr in self.methods:
                    return ('m', n.attr)
                return None
            if isinstance(n, ast.Call):
                fn = n.func
                target = None
                if isinstance(fn, ast.Attribute) and isinstance(fn.value, ast.Name) and fn.value.id == 'self' and fn.attr in self.methods:
                    target = fn.attr
                elif isinstance(fn, ast.Name):
                    try:
                        t = lit.ev(fn)
                        if isinstance(t, tuple) and len(t) == 2 and t[0] == 'm':
                            target = t[1]
                    except NotLiteral:
                        pass
                if target is not None:
                    args = [lit.ev(a) for a in n.args]
                    kw = lit._kw(n.keywords)
                    r = self.call(target, args, kw)
                    return FOLDED_NONE if r is None else r
            return None
        f.wants_lit = True
        return f

    def call(self, name, args, kw=None):
        fn = self.methods[name]
        params = [a.arg for a in fn.args.args][1:]
        env = dict(zip(params, args))
        env.update(kw or {})
        defaults = fn.args.defaults
        for p, d in zip(params[len(params) - len(defaults):], defaults):
            if p not in env:
                env[p] = Lit(self.repo, self.modname).ev(d)
        ff = FuncFold(self.repo, self.modname, {}, self.hook())
        ff.attrs = self.attrs
        return ff.call(fn, env)
