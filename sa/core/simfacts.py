"""Facts about the four simulator implementations: dispatch tables, slot instantiation, per-slot paths."""
import ast
from .pyfacts import FactError, Lit, NotLiteral
from .terms import C, isc, post
from . import effects
from .effects import PyExtractor, CExtractor, Path, Unsupported, closure_of, prelude_env
from . import cfacts

TABLES = ('opcodes', 'after_CB', 'after_ED', 'after_DD', 'after_FD', 'after_DDCB', 'after_FDCB')
PREFIX_BYTES = {'opcodes': (), 'after_CB': (0xCB,), 'after_ED': (0xED,), 'after_DD': (0xDD,), 'after_FD': (0xFD,),
                'after_DDCB': (0xDD, 0xCB), 'after_FDCB': (0xFD, 0xCB)}

class PySlot:
    __slots__ = ('table', 'index', 'handler', 'argnodes', 'line', 'args')
    def key(self):
        return '%s[0x%02X]' % (self.table, self.index)

class PySim:
    """Dispatch tables of skoolkit.simulator.Simulator.create_opcodes and the handler factories of a class."""
    def __init__(self, repo):
        self.repo = repo
        self.mod = repo.mod('simulator')
        self.cmod = repo.mod('cmiosimulator')
        self.simutils = repo.mod('simutils')
        self.factories = {'Simulator': self.mod.methods('Simulator'), 'CMIOSimulator': self.cmod.methods('CMIOSimulator')}
        self.regconsts = {}
        for name, vals in self.simutils.assigns.items():
            v = vals[-1]
            if isinstance(v, ast.Constant) and isinstance(v.value, int) and not isinstance(v.value, bool):
                self.regconsts[name] = v.value
        co = self.mod.method('Simulator', 'create_opcodes')
        self.create_opcodes = co
        self.table_names = set()
        for st in co.body:
            if isinstance(st, ast.ImportFrom) and st.module == 'skoolkit.simtables':
                self.table_names |= {a.asname or a.name for a in st.names}
        self.local_alias = {}
        self.slots = {}
        for st in co.body:
            if isinstance(st, ast.Assign) and len(st.targets) == 1:
                tg = st.targets[0]
                if isinstance(tg, ast.Name) and isinstance(st.value, ast.Attribute) and isinstance(st.value.value, ast.Name) and st.value.value.id == 'self':
                    self.local_alias[tg.id] = st.value.attr
                if isinstance(tg, ast.Attribute) and isinstance(tg.value, ast.Name) and tg.value.id == 'self' and isinstance(st.value, ast.List):
                    rows = []
                    for i, e in enumerate(st.value.elts):
                        if not (isinstance(e, ast.Call) and isinstance(e.func, ast.Attribute) and isinstance(e.func.value, ast.Name) and e.func.value.id == 'self'):
                            raise FactError('%s:%d: slot %s[%d] is not a self.<factory>(...) call' % (self.mod.relpath, e.lineno, tg.attr, i))
                        if e.keywords:
                            raise FactError('%s:%d: slot uses keyword arguments' % (self.mod.relpath, e.lineno))
                        s = PySlot()
                        s.table, s.index, s.handler, s.argnodes, s.line = tg.attr, i, e.func.attr, e.args, e.lineno
                        rows.append(s)
                    self.slots[tg.attr] = rows
        for t in TABLES:
            if t not in self.slots:
                raise FactError('dispatch table self.%s not found in Simulator.create_opcodes' % t)
            if len(self.slots[t]) != 256:
                raise FactError('dispatch table self.%s has %d slots, expected 256' % (t, len(self.slots[t])))

    def argvalue(self, node):
        """Slot argument -> ('regs',) | ('mem',) | ('int', n) | ('table', name) | ('optable', name)."""
        if isinstance(node, ast.Name):
            n = node.id
            if n in self.local_alias:
                a = self.local_alias[n]
                if a == 'registers': return ('regs',)
                if a == 'memory': return ('mem',)
                return ('attr', a)
            if n in ('R1', 'R2'):
                return ('table', n)
            if n in self.table_names:
                return ('table', n)
            if n in self.mod.imports and self.mod.imports[n][0] == 'skoolkit.simutils' and n in self.regconsts:
                return ('int', self.regconsts[n])
            if n in self.regconsts and n in self.mod.imports:
                return ('int', self.regconsts[n])
            raise FactError('%s:%d: cannot resolve slot argument %s' % (self.mod.relpath, node.lineno, n))
        if isinstance(node, ast.Constant) and isinstance(node.value, int):
            return ('int', int(node.value))
        if isinstance(node, ast.UnaryOp) and isinstance(node.op, ast.USub) and isinstance(node.operand, ast.Constant):
            return ('int', -node.operand.value)
        if isinstance(node, ast.Attribute) and isinstance(node.value, ast.Name) and node.value.id == 'self':
            return ('optable', node.attr)
        raise FactError('%s:%d: unsupported slot argument %s' % (self.mod.relpath, node.lineno, ast.unparse(node)))

    def bind(self, cls, slot):
        """Bind the factory's parameters for this slot: returns (factory, {param: value}) with defaults filled."""
        fac = self.factories[cls].get(slot.handler)
        if fac is None:
            raise FactError('%s has no handler factory %s (slot %s)' % (cls, slot.handler, slot.key()))
        names = [a.arg for a in fac.args.args][1:]
        vals = [self.argvalue(a) for a in slot.argnodes]
        if len(vals) > len(names):
            raise FactError('%s: too many arguments for %s.%s' % (slot.key(), cls, slot.handler))
        bound = dict(zip(names, vals))
        defaults = fac.args.defaults
        for pn, dv in zip(names[len(names) - len(defaults):], defaults):
            if pn not in bound:
                try:
                    bound[pn] = ('int', int(ast.literal_eval(dv)))
                except Exception:
                    raise FactError('%s.%s: non-literal default for %s' % (cls, slot.handler, pn))
        missing = [n for n in names if n not in bound]
        if missing:
            raise FactError('%s: missing arguments %s for %s.%s' % (slot.key(), missing, cls, slot.handler))
        return fac, names, bound

    def paths(self, cls, slot=None, handler=None, bound=None):
        """Paths of the instantiated closure of `slot` in class `cls`."""
        if slot is not None:
            fac, names, bound = self.bind(cls, slot)
        else:
            fac = self.factories[cls][handler]
        return self.paths_of(cls, fac, bound)

    def paths_of(self, cls, fac, bound):
        params = {}
        regname = memname = None
        for pn, v in bound.items():
            if v[0] == 'regs': regname = pn
            elif v[0] == 'mem': memname = pn
            elif v[0] == 'int': params[pn] = C(v[1])
            elif v[0] == 'table': params[pn] = ('T', v[1])
            else: params[pn] = ('sym', v[1])
        inner_funcs = {}
        # fast variants call a sibling closure: djnz = self.djnz(registers, memory)
        for st in fac.body:
            if isinstance(st, ast.Assign) and isinstance(st.value, ast.Call) and isinstance(st.value.func, ast.Attribute) \
               and isinstance(st.value.func.value, ast.Name) and st.value.func.value.id == 'self' and isinstance(st.targets[0], ast.Name):
                callee = self.factories[cls].get(st.value.func.attr) or self.factories['Simulator'].get(st.value.func.attr)
                if callee is None:
                    continue
                cnames = [a.arg for a in callee.args.args][1:]
                cb = {}
                for cn, an in zip(cnames, st.value.args):
                    if isinstance(an, ast.Name) and an.id in bound:
                        cb[cn] = bound[an.id]
                    elif isinstance(an, ast.Constant):
                        cb[cn] = ('int', an.value)
                    elif isinstance(an, ast.UnaryOp):
                        cb[cn] = ('int', -an.operand.value)
                cparams = {}
                cr = cm = None
                for pn, v in cb.items():
                    if v[0] == 'regs': cr = pn
                    elif v[0] == 'mem': cm = pn
                    elif v[0] == 'int': cparams[pn] = C(v[1])
                    elif v[0] == 'table': cparams[pn] = ('T', v[1])
                ex = PyExtractor(cparams, self.regconsts)
                ex.regname = cr or 'registers'; ex.memname = cm or 'memory'
                inner_funcs[st.targets[0].id] = (closure_of(callee), ex)
        ex = PyExtractor(params, self.regconsts, inner_funcs=inner_funcs)
        ex.regname = regname or 'registers'
        ex.memname = memname or 'memory'
        ex.params[ex.regname] = ('sym', '$registers')
        p = Path()
        p.env.update(prelude_env(fac))
        clo = closure_of(fac)
        return ex.run([p], clo.body), clo

class CSim:
    def __init__(self, repo_root, facts=None):
        self.facts = facts or cfacts.load(repo_root)
        self.units = {'plain': cfacts.CUnit(self.facts['plain']), 'cont': cfacts.CUnit(self.facts['cont'])}
        self.tables = {}
        self.consts = {}
        for cfg, u in self.units.items():
            self.consts[cfg] = cfacts.const_ints(u)
            tabs = {}
            for t in TABLES:
                if t not in u.vars:
                    raise FactError('c/csimulator.c: dispatch table %s not found (%s build)' % (t, cfg))
                d = u.vars[t]
                il = [c for c in d.get('inner', []) if c['kind'] == 'InitListExpr']
                if not il:
                    raise FactError('c/csimulator.c: %s has no initialiser' % t)
                rows = []
                for e in il[0].get('inner', []):
                    parts = e.get('inner', [])
                    if e.get('kind') != 'InitListExpr' or len(parts) != 3:
                        raise FactError('c/csimulator.c:%d: unexpected OpcodeFunction initialiser in %s' % (e.get('line', 0), t))
                    f, l, a = parts
                    args = cfacts.lit(a)
                    fn = cfacts.lit(f)
                    lk = cfacts.lit(l)
                    if not isinstance(args, list):
                        raise FactError('c/csimulator.c:%d: args initialiser not a list' % e.get('line', 0))
                    args = [self.consts[cfg].get(x, x) if isinstance(x, str) else x for x in args]
                    args = (args + [0] * 7)[:7]
                    rows.append({'func': fn if isinstance(fn, str) else None, 'lookup': lk if isinstance(lk, str) else None,
                                 'args': args, 'line': e.get('line', 0), 'nargs': len(cfacts.init_list(a)) if 'array_filler' not in cfacts.strip(a) else len(cfacts.init_list(a))})
                if len(rows) != 256:
                    raise FactError('c/csimulator.c: table %s has %d rows, expected 256 (%s build)' % (t, len(rows), cfg))
                tabs[t] = rows
            self.tables[cfg] = tabs

    def paths(self, cfg, handler, args, lookup):
        u = self.units[cfg]
        if handler not in u.funcs:
            raise FactError('c/csimulator.c: handler %s not found (%s build)' % (handler, cfg))
        ex = CExtractor(args, lookup, self.consts[cfg], u, handler)
        p = Path()
        return ex.run([p], u.body(handler))

    def handler_arg_names(self, cfg, handler):
        """`int x = args[k];` declarations at the top of a handler: k -> name."""
        u = self.units[cfg]
        out = {}
        for st in u.body(handler).get('inner', []):
            if st.get('kind') != 'DeclStmt':
                continue
            for v in st.get('inner', []):
                if v.get('kind') == 'VarDecl' and v.get('inner'):
                    e = cfacts.strip(v['inner'][-1])
                    if e.get('kind') == 'ArraySubscriptExpr':
                        b = cfacts.strip(e['inner'][0]); i = cfacts.strip(e['inner'][1])
                        if b.get('kind') == 'DeclRefExpr' and b.get('ref') in ('args', 'arg') and i.get('kind') == 'IntegerLiteral':
                            out[int(i['value'])] = v['name']
        return out

IMPLS = ('py', 'cm', 'cp', 'cc')   # Simulator, CMIOSimulator, C plain, C -DCONTENTION
IMPL_NAMES = {'py': 'skoolkit/simulator.py Simulator', 'cm': 'skoolkit/cmiosimulator.py CMIOSimulator',
              'cp': 'c/csimulator.c (plain build)', 'cc': 'c/csimulator.c (-DCONTENTION build)'}

class SimModel:
    """All four implementations, with cached raw paths per distinct instantiation."""
    def __init__(self, repo, need_c=True):
        self.repo = repo
        self.py = PySim(repo)
        self.c = CSim(repo.root) if need_c else None
        self._raw = {}
        self._canon = {}

    def slots(self):
        for tab in TABLES:
            for s in self.py.slots[tab]:
                yield s

    def is_prefix(self, slot):
        return slot.handler in ('prefix', 'prefix2')

    def inst_key(self, impl, slot):
        if impl in ('py', 'cm'):
            return (impl, slot.handler, tuple(repr(self.py.argvalue(a)) for a in slot.argnodes))
        row = self.c.tables['plain' if impl == 'cp' else 'cont'][slot.table][slot.index]
        return (impl, row['func'], row['lookup'], tuple(row['args']))

    def raw_paths(self, impl, slot):
        k = self.inst_key(impl, slot)
        if k not in self._raw:
            try:
                if impl == 'py':
                    self._raw[k] = self.py.paths('Simulator', slot)[0]
                elif impl == 'cm':
                    self._raw[k] = self.py.paths('CMIOSimulator', slot)[0]
                else:
                    cfg = 'plain' if impl == 'cp' else 'cont'
                    row = self.c.tables[cfg][slot.table][slot.index]
                    if row['func'] is None:
                        raise Unsupported('C slot has no handler function')
                    self._raw[k] = self.c.paths(cfg, row['func'], row['args'], row['lookup'])
            except Unsupported as e:
                self._raw[k] = e
        r = self._raw[k]
        if isinstance(r, Unsupported):
            raise r
        return r

    def canon(self, impl, slot, **kw):
        k = (self.inst_key(impl, slot), tuple(sorted(kw.items())))
        if k not in self._canon:
            self._canon[k] = effects.canon(self.raw_paths(impl, slot), **kw)
        return self._canon[k]

    def where(self, impl, slot):
        if impl in ('py', 'cm'):
            fac = self.py.factories['Simulator' if impl == 'py' else 'CMIOSimulator'].get(slot.handler)
            mod = self.py.mod if impl == 'py' else self.py.cmod
            return '%s:%d' % (mod.relpath, fac.lineno if fac else 0)
        cfg = 'plain' if impl == 'cp' else 'cont'
        row = self.c.tables[cfg][slot.table][slot.index]
        f = self.c.units[cfg].funcs.get(row['func'])
        return 'c/csimulator.c:%d' % (f['line'] if f else row['line'])

def _const_delta(term, reg):
    """term == (reg + k) [& 0xFFFF] -> k ; unchanged -> 0 ; otherwise None."""
    t = term
    if t == ('reg', reg):
        return 0
    if t[0] == '&' and len(t) == 3 and t[2] == C(0xFFFF):
        t = t[1]
    if t == ('reg', reg):
        return 0
    if t[0] == '+' and ('reg', reg) in t[1:]:
        rest = [x for x in t[1:] if x != ('reg', reg)]
        k = 0
        for x in rest:
            if isc(x):
                k += x[1]
            elif x[0] == 'contend':
                continue
            else:
                return None
        return k
    return None

def summarize(canon_items):
    """-> dict(pc={consts or 'jump'}, t={consts or 'var'}, r={1,2,...})"""
    pcs, ts, rs = set(), set(), set()
    for g, e in canon_items:
        regs = dict(e[0])
        pc = regs.get(24, ('reg', 24))
        d = _const_delta(pc, 24)
        pcs.add(d if d is not None else 'jump')
        t = regs.get(25, ('reg', 25))
        d = _const_delta(t, 25)
        ts.add(d if d is not None else 'var')
        r = regs.get(15, ('reg', 15))
        if r[0] == 'rinc' and r[1] == ('reg', 15):
            rs.add(r[2])
        elif r == ('reg', 15):
            rs.add(0)
        else:
            rs.add('other')
    return {'pc': pcs, 't': ts, 'r': rs}
