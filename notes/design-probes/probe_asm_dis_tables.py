import ast, collections, re
R='/repo/'
t=ast.parse(open(R+'skoolkit/disassembler.py').read())
cls=[n for n in t.body if isinstance(n,ast.ClassDef) and n.name=='Disassembler'][0]
m={f.name:f for f in cls.body if isinstance(f,ast.FunctionDef)}
tabs={}
for n in m['create_opcodes'].body:
    if isinstance(n,ast.Assign) and isinstance(n.value,ast.Dict):
        name=n.targets[0].attr
        d={}
        for k,v in zip(n.value.keys,n.value.values):
            if isinstance(v,ast.Constant): d[k.value]=('no_arg',v.value,0)
            else:
                e=v.elts
                d[k.value]=(e[0].attr,e[1].value,e[2].value if len(e)>2 else 0)
        tabs[name]=d
print({k:len(v) for k,v in tabs.items()})
# injectivity on base tables
def all_entries(tabs):
    for k,(dec,tpl,fl) in tabs['ops'].items():
        if tpl: yield ((k,),dec,tpl,fl)
    for k,(dec,tpl,fl) in tabs['after_CB'].items(): yield ((0xCB,k),dec,tpl,fl)
    for p in (0xDD,0xFD):
        for k,(dec,tpl,fl) in tabs['after_DD'].items():
            if tpl: yield ((p,k),dec,tpl.replace('IX','IY') if p==0xFD else tpl,fl)
        for k,(dec,tpl,fl) in tabs['after_DDCB'].items():
            yield ((p,0xCB,k),dec,tpl.replace('IX','IY') if p==0xFD else tpl,fl)
    for k,(dec,tpl,fl) in tabs['after_ED'].items():
        if tpl: yield ((0xED,k),dec,tpl,fl)
by=collections.defaultdict(list)
for seq,dec,tpl,fl in all_entries(tabs):
    by[(tpl,dec if dec in('byte_arg','word_arg','jr_arg','index','index_arg','rst_arg','no_arg') else dec)].append((seq,fl))
dups={k:v for k,v in by.items() if len([x for x in v if not x[1]])>1}
print('non-variant duplicates (base tables):',dups)
# rst_arg templates 'RST 0' etc fine
# zero-operand assembler mnemonics
z=ast.parse(open(R+'skoolkit/z80.py').read())
asm=[n for n in z.body if isinstance(n,ast.ClassDef) and n.name=='Assembler'][0]
init=[f for f in asm.body if isinstance(f,ast.FunctionDef) and f.name=='__init__'][0]
mn=[n for n in ast.walk(init) if isinstance(n,ast.Dict)][0]
lit={k.value:tuple(e.value for e in v.elts) for k,v in zip(mn.keys,mn.values) if isinstance(v,ast.Tuple)}
print(len(lit),'literal mnemonics')
text2seq={tpl:seq for seq,dec,tpl,fl in all_entries(tabs) if dec=='no_arg' and not fl}
bad=[(k,v,text2seq.get(k)) for k,v in lit.items() if text2seq.get(k)!=v]
print('zero-operand mismatches:',bad)
# decoder extent
for name in ('no_arg','byte_arg','word_arg','jr_arg','rst_arg','index','index_arg','index_offset','cb_arg','ed_arg','dd_arg','ddcb_arg','defb4'):
    f=m[name]
    offs=set()
    for n in ast.walk(f):
        if isinstance(n,ast.Subscript) and ast.unparse(n.value)=='self.snapshot':
            offs.add(ast.unparse(n.slice))
    rets=[ast.unparse(r.value) for r in ast.walk(f) if isinstance(r,ast.Return)]
    print(name, sorted(offs), rets)
