import ast, collections
R='/repo/'
t=ast.parse(open(R+'skoolkit/skoolmacro.py').read())
funcs={n.name:n for n in t.body if isinstance(n,ast.FunctionDef)}
roots=['parse_eval','parse_n','parse_if','parse_map','parse_for','parse_foreach','parse_while','parse_let','parse_format','parse_def','parse_peek','parse_pokes','parse_pushs','parse_pops','parse_chr','parse_str','parse_space','parse_pc']
seen=set(); work=list(roots)
while work:
    f=work.pop()
    if f in seen or f not in funcs: continue
    seen.add(f)
    for n in ast.walk(funcs[f]):
        if isinstance(n,ast.Call) and isinstance(n.func,ast.Name) and n.func.id in funcs: work.append(n.func.id)
print(len(seen),'functions in closure:',sorted(seen))
wattrs=collections.defaultdict(set); modes=[]
for f in sorted(seen):
    fn=funcs[f]
    params=[a.arg for a in fn.args.args]
    for n in ast.walk(fn):
        if isinstance(n,ast.Attribute) and isinstance(n.value,ast.Name) and n.value.id in ('writer','entry_holder','_writer'):
            wattrs[n.attr].add(f)
        if isinstance(n,ast.Subscript):
            u=ast.unparse(n)
            if "['mode']" in u or "['html']" in u or "['asm']" in u: modes.append((f,n.lineno,u))
print('writer attrs:')
for a,fs in sorted(wattrs.items()): print('  ',a,sorted(fs))
print('mode reads:',sorted(set(modes)))
