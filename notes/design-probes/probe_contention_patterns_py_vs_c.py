import json, ast, collections, re
exec(open('p5.py').read().split("for name in sys.argv")[0])
R='/repo/'
# python patterns
t=ast.parse(open(R+'skoolkit/cmiosimulator.py').read())
cls=[n for n in t.body if isinstance(n,ast.ClassDef)][0]
py={}
for m in cls.body:
    if not isinstance(m,ast.FunctionDef): continue
    inner=[n for n in m.body if isinstance(n,ast.FunctionDef)]
    if not inner: continue
    pats=[]
    for node in ast.walk(inner[0]):
        if isinstance(node,ast.Call) and isinstance(node.func,ast.Name) and node.func.id=='contend':
            seq=[]
            for e in node.args[1].elts:
                if isinstance(e,ast.Starred): seq.append('io')
                else: seq.append(e.elts[1].value)
            pats.append(tuple(seq))
    py[m.name]=sorted(pats)
cc={}
for name,fn in funcs.items():
    out=[]; walk([c for c in fn['inner'] if c['kind']=='CompoundStmt'][0],[],out)
    pats=[]
    for o in out:
        if o[0]=='init' and o[1]=='cpattern':
            seq=[]
            el=o[2]
            for a,d in zip(el[0::2],el[1::2]):
                seq.append('io' if d=='0' else int(d))
            pats.append(tuple(seq))
    if pats: cc[name]=sorted(pats)
print(len(py),'py handlers',len(cc),'c handlers with patterns')
diff=[]
for h in sorted(set(py)|set(cc)):
    if h in ('__init__','contend_48k','contend_128k','io_contention_48k','io_contention_128k','accept_interrupt'): continue
    a=py.get(h,[]); b=cc.get(h,[])
    if a!=b: diff.append((h,a,b))
print('handlers with differing duration sequences:',len(diff))
for d in diff: print(' ',d)
