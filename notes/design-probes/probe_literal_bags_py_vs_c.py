# proxy probe: how close is the C code to a transliteration of the Python CMIO closures?
import json, ast, collections, re
exec(open('p5.py').read().split("for name in sys.argv")[0])
R='/repo/'
def norm_ops(c):
    m={'Mod':'%','FloorDiv':'/','Div':'/','Add':'+','Sub':'-','Mult':'*','BitAnd':'&','BitOr':'|','BitXor':'^'}
    return c
def py_bag(f):
    lits=collections.Counter(); ops=collections.Counter()
    for n in ast.walk(f):
        if isinstance(n,ast.Constant) and isinstance(n.value,int) and not isinstance(n.value,bool): lits[n.value]+=1
        if isinstance(n,ast.BinOp): ops[type(n.op).__name__]+=1
        if isinstance(n,ast.AugAssign): ops[type(n.op).__name__]+=1
    return lits,ops
t=ast.parse(open(R+'skoolkit/cmiosimulator.py').read()); cls=[n for n in t.body if isinstance(n,ast.ClassDef)][0]
py={}
for m in cls.body:
    if isinstance(m,ast.FunctionDef):
        inner=[n for n in m.body if isinstance(n,ast.FunctionDef)]
        if inner: py[m.name]=py_bag(inner[0])
def c_bag(n,lits,ops):
    k=n.get('kind')
    if k=='IntegerLiteral': lits[int(n['value'])]+=1
    if k in('BinaryOperator','CompoundAssignOperator'):
        ops[n['opcode']]+=1
    for c in n.get('inner',[]): c_bag(c,lits,ops)
res=[]
for h,(pl,po) in sorted(py.items()):
    if h not in funcs: continue
    cl=collections.Counter(); co=collections.Counter()
    c_bag([c for c in funcs[h]['inner'] if c['kind']=='CompoundStmt'][0],cl,co)
    # compare flag-relevant literals only (ignore 65536/65535/256/255/16384 and small register indices which are named consts in C)
    def keep(v): return v not in (65536,65535,256,255,16384) 
    plf={k:v for k,v in pl.items() if keep(k)}; clf={k:v for k,v in cl.items() if keep(k)}
    # python uses literal register indices (0..29) that C names; drop literals < 30 on python side only if absent on C side
    d={k:(plf.get(k,0),clf.get(k,0)) for k in set(plf)|set(clf) if plf.get(k,0)!=clf.get(k,0) and k>=32}
    res.append((h,d))
same=[h for h,d in res if not d]
print(len(same),'of',len(res),'handlers have identical bags of literals >= 32 (excluding wrap masks)')
for h,d in res:
    if d: print(' ',h,d)
