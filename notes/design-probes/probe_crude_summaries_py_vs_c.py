import json, ast, collections, re
exec(open('p5.py').read().split("for name in sys.argv")[0])
R='/repo/'
def pysum(fn,cn):
    t=ast.parse(open(R+fn).read()); cls=[n for n in t.body if isinstance(n,ast.ClassDef) and n.name==cn][0]
    res={}
    for m in cls.body:
        if not isinstance(m,ast.FunctionDef): continue
        inner=[n for n in m.body if isinstance(n,ast.FunctionDef)]
        if not inner: continue
        T=set(); PC=set(); RW=set(); MW=0
        for n in ast.walk(inner[0]):
            if isinstance(n,ast.AugAssign) and ast.unparse(n.target)=='registers[25]':
                T.add(ast.unparse(n.value).replace(' + delay',''))
            if isinstance(n,(ast.Assign,ast.AugAssign)):
                tgts=n.targets if isinstance(n,ast.Assign) else [n.target]
                for tg in tgts:
                    for s in ([tg] if not isinstance(tg,ast.Tuple) else tg.elts):
                        if isinstance(s,ast.Subscript) and isinstance(s.value,ast.Name):
                            if s.value.id=='registers':
                                k=ast.unparse(s.slice)
                                RW.add(k)
                                if k=='24':
                                    v=ast.unparse(n.value)
                                    mm=re.match(r'\((?:registers\[24\]|pc|pcn?) \+ (\w+)\) % 65536$',v)
                                    PC.add(mm.group(1) if mm else 'other')
                            elif s.value.id=='memory': MW+=1
        res[m.name]=(sorted(T),sorted(PC),sorted(RW),MW)
    return res
py=pysum('skoolkit/cmiosimulator.py','CMIOSimulator')
CONST={'A':'0','F':'1','B':'2','C':'3','D':'4','E':'5','H':'6','L':'7','SP':'12','I':'14','R':'15','xA':'16','xF':'17','xB':'18','xC':'19','xD':'20','xE':'21','xH':'22','xL':'23','PC':'24','T':'25','IFF':'26','IM':'27','HALT':'28','MEMPTR':'29'}
cs={}
for name,fn in funcs.items():
    out=[]; walk([c for c in fn['inner'] if c['kind']=='CompoundStmt'][0],[],out)
    T=set(); PC=set(); RW=set(); MW=0
    for o in out:
        if o[0] in ('=','+=','&=','|='):
            lhs=o[1]
            mm=re.match(r'reg\[(\w+)\]$',lhs)
            if mm:
                k=CONST.get(mm.group(1),mm.group(1)); RW.add(k)
                if k=='25': T.add(o[2].strip('()').replace(' + delay',''))
                if k=='24':
                    m2=re.match(r'\(\((?:reg\[PC\]|pc) \+ (\w+)\) & 65535\)$',o[2]); PC.add(m2.group(1) if m2 else 'other')
            elif lhs.startswith('mem['): MW+=1
    cs[name]=(sorted(T),sorted(PC),sorted(RW),MW)
diffs=[]
for h in sorted(py):
    if h not in cs: continue
    a,b=py[h],cs[h]
    d=[]
    if a[0]!=b[0]: d.append(('T',a[0],b[0]))
    if a[1]!=b[1]: d.append(('PC',a[1],b[1]))
    if a[3]!=b[3]: d.append(('memwrites',a[3],b[3]))
    ra=set(a[2]); rb=set(b[2])
    if ra!=rb: d.append(('regs',sorted(ra-rb),sorted(rb-ra)))
    if d: diffs.append((h,d))
print(len(diffs),'handlers with crude-summary differences')
for h,d in diffs: print(' ',h,d)
