# throwaway prototype: interval x mask abstract interpretation of Simulator closures per slot
import ast, json, collections
R='/repo/'
INF=float('inf')
class V:
    __slots__=('lo','hi','mask')
    def __init__(s,lo,hi,mask=None):
        s.lo,s.hi=lo,hi
        if mask is None:
            mask = (1<<int(hi).bit_length())-1 if (lo>=0 and hi!=INF) else None
        s.mask=mask
        if s.mask is not None and lo>=0: s.hi=min(s.hi,s.mask)
    def __repr__(s): return f'[{s.lo},{s.hi}]m{s.mask if s.mask is None else hex(s.mask)}'
def const(c): 
    c=int(c); return V(c,c,c if c>=0 else None)
def join(a,b):
    m = (a.mask|b.mask) if (a.mask is not None and b.mask is not None) else None
    return V(min(a.lo,b.lo),max(a.hi,b.hi),m)
BYTE=V(0,255); WORD=V(0,65535); BOOL=V(0,1)
def add(a,b):
    if a.mask is not None and b.mask is not None and a.mask & b.mask == 0 and a.lo>=0 and b.lo>=0:
        return V(a.lo+b.lo, min(a.hi+b.hi, a.mask|b.mask), a.mask|b.mask)
    return V(a.lo+b.lo,a.hi+b.hi)
def sub(a,b): return V(a.lo-b.hi,a.hi-b.lo)
def mul(a,b):
    cs=[a.lo*b.lo,a.lo*b.hi,a.hi*b.lo,a.hi*b.hi]
    lo,hi=min(cs),max(cs)
    m=None
    for x,y in ((a,b),(b,a)):
        if y.lo==y.hi and y.lo>0 and (y.lo & (y.lo-1))==0 and x.mask is not None and x.lo>=0:
            m=x.mask*y.lo
        # bool * const
        if x.lo>=0 and x.hi<=1 and y.lo==y.hi and y.lo>=0: m=y.lo
    return V(lo,hi,m)
def mod(a,b):
    if b.lo==b.hi and b.lo>0:
        n=b.lo
        if (n&(n-1))==0:
            m=n-1
            if a.mask is not None and a.lo>=0: m&=a.mask
            if a.lo>=0 and a.hi<n: return V(a.lo,a.hi,m)
            return V(0,min(n-1,m),m)
        if a.lo>=0 and a.hi<n: return a
        return V(0,n-1)
    return V(0,INF)
def fdiv(a,b):
    if b.lo==b.hi and b.lo>0:
        n=b.lo
        m=None
        if (n&(n-1))==0 and a.mask is not None and a.lo>=0: m=a.mask//n
        return V(a.lo//n if a.lo!=-INF else -INF, a.hi//n if a.hi!=INF else INF, m)
    return V(-INF,INF)
def band(a,b):
    ms=[x.mask for x in (a,b) if x.mask is not None and x.lo>=0]
    if ms:
        m=ms[0]
        for x in ms[1:]: m&=x
        return V(0,m,m)
    return V(-INF,INF)
def bor(a,b):
    if a.mask is not None and b.mask is not None and a.lo>=0 and b.lo>=0: m=a.mask|b.mask; return V(max(a.lo,b.lo),m,m)
    return V(-INF,INF)
bxor=lambda a,b: (lambda m: V(0,m,m))(a.mask|b.mask) if (a.mask is not None and b.mask is not None and a.lo>=0 and b.lo>=0) else V(-INF,INF)

simutils=ast.parse(open(R+'skoolkit/simutils.py').read())
consts={n.targets[0].id:n.value.value for n in simutils.body if isinstance(n,ast.Assign) and isinstance(n.value,ast.Constant) and isinstance(n.value.value,int)}
def reg_range(k):
    if k in (12,24,29): return WORD
    if k==25: return V(0,INF)
    if k==26 or k==28: return BOOL
    if k==27: return V(0,2)
    return BYTE
# table element summaries (hand-assumed in this probe; framework derives them from simtables)
PAIR=('pair',BYTE,BYTE)
TABLES={'R1':('vec',BYTE),'R2':('vec',BYTE),'OFFSETS':('vec',V(-128,127)),'JR_OFFSETS':('vec',V(-126,129)),
 'PARITY':('vec',V(0,4,4)),'SZ53P':('vec',V(0,0xEC,0xEC))}
class Fail(Exception): pass
class Interp:
    def __init__(s,env,name): s.env=dict(env); s.fails=[]; s.name=name
    def ev(s,e):
        if isinstance(e,ast.Constant):
            if isinstance(e.value,bool): return const(int(e.value))
            return const(e.value)
        if isinstance(e,ast.Name):
            if e.id in s.env: return s.env[e.id]
            raise Fail('unbound '+e.id)
        if isinstance(e,ast.BinOp):
            a,b=s.ev(e.left),s.ev(e.right)
            if isinstance(a,tuple) or isinstance(b,tuple): raise Fail('tuple arith')
            return {ast.Add:add,ast.Sub:sub,ast.Mult:mul,ast.Mod:mod,ast.FloorDiv:fdiv,ast.BitAnd:band,ast.BitOr:bor,ast.BitXor:bxor}[type(e.op)](a,b)
        if isinstance(e,ast.Compare): 
            for x in [e.left]+e.comparators: s.ev(x)
            return BOOL
        if isinstance(e,ast.BoolOp):
            vs=[s.ev(x) for x in e.values]; r=vs[0]
            for v in vs[1:]: r=join(r,v)
            return join(r,const(0)) if isinstance(e.op,ast.And) else r
        if isinstance(e,ast.UnaryOp) and isinstance(e.op,ast.USub): v=s.ev(e.operand); return V(-v.hi,-v.lo)
        if isinstance(e,ast.Subscript):
            base=e.value
            # registers[k], memory[a], table lookups
            chain=[]; b=e
            while isinstance(b,ast.Subscript): chain.append(b.slice); b=b.value
            chain.reverse()
            if isinstance(b,ast.Name):
                if b.id=='registers':
                    sl=chain[0]
                    if isinstance(sl,ast.Slice): return ('slice',)
                    k=s.ev(sl)
                    if k.lo==k.hi: return reg_range(k.lo)
                    return join(BYTE,WORD)
                if b.id=='memory':
                    a=s.ev(chain[0])
                    if not (a.lo>=0 and a.hi<=65535): s.fails.append(('memidx',ast.unparse(e),a))
                    return BYTE
                v=s.env.get(b.id)
                if isinstance(v,tuple) and v[0]=='table':
                    kind=v[1]; depth=v[2]
                    for c in chain: s.ev(c)
                    if len(chain)==depth: return kind
                    if len(chain)==depth+1 and kind[0]=='pair':
                        i=s.ev(chain[-1]); return kind[1+i.lo]
                    raise Fail(f'table depth {b.id} {len(chain)} {depth}')
            raise Fail('subscript '+ast.unparse(e))
        if isinstance(e,ast.Call):
            f=ast.unparse(e.func)
            for a in e.args: 
                if not isinstance(a,(ast.Tuple,ast.Starred)): s.ev(a)
            if 'tracer' in f: return BYTE   # assumption
            raise Fail('call '+f)
        if isinstance(e,ast.Tuple): return ('tuple',[s.ev(x) for x in e.elts])
        raise Fail('expr '+type(e).__name__)
    def store(s,tg,v,node):
        if isinstance(tg,ast.Name): s.env[tg.id]=v; return
        if isinstance(tg,ast.Tuple):
            if isinstance(v,tuple) and v[0]=='pair': vs=[v[1],v[2]]
            elif isinstance(v,tuple) and v[0]=='tuple': vs=v[1]
            else: raise Fail('unpack '+ast.unparse(node))
            for t,x in zip(tg.elts,vs): s.store(t,x,node)
            return
        if isinstance(tg,ast.Subscript) and isinstance(tg.value,ast.Name):
            if tg.value.id=='registers':
                if isinstance(tg.slice,ast.Slice):
                    lo=tg.slice.lower.value if tg.slice.lower else 0; hi=tg.slice.upper.value
                    if isinstance(v,tuple) and v[0]=='pair' and hi-lo==2:
                        for k,x in zip(range(lo,hi),v[1:]): s.chk(k,x,node)
                    elif isinstance(v,tuple) and v[0]=='slice': pass
                    else: raise Fail('slice store '+ast.unparse(node))
                    return
                k=s.ev(tg.slice)
                if k.lo!=k.hi: raise Fail('nonconst reg idx '+ast.unparse(node))
                s.chk(k.lo,v,node); return
            if tg.value.id=='memory':
                if isinstance(v,tuple): raise Fail('mem tuple')
                if not (v.lo>=0 and v.hi<=255): s.fails.append(('memval',node.lineno,ast.unparse(node),v))
                return
        raise Fail('store '+ast.unparse(tg))
    def chk(s,k,v,node):
        if isinstance(v,tuple): raise Fail('reg tuple '+ast.unparse(node))
        r=reg_range(k)
        if not (v.lo>=r.lo and v.hi<=r.hi): s.fails.append(('reg',k,node.lineno,ast.unparse(node),v))
    def run(s,body):
        for st in body:
            if isinstance(st,ast.Assign):
                v=s.ev(st.value)
                for tg in st.targets: s.store(tg,v,st)
            elif isinstance(st,ast.AugAssign):
                cur=s.ev(st.target); v=s.ev(st.value)
                op={ast.Add:add,ast.Sub:sub,ast.BitAnd:band,ast.BitOr:bor,ast.Mod:mod}[type(st.op)]
                if isinstance(st.target,ast.Subscript) and ast.unparse(st.target)=='registers[25]':
                    if not v.lo>=0: s.fails.append(('Tdec',st.lineno,ast.unparse(st),v))
                    continue
                s.store(st.target,op(cur,v),st)
            elif isinstance(st,ast.If):
                # fold constant tests on params
                t=None
                try:
                    tv=s.fold(st.test)
                except Exception: tv=None
                if tv is True: s.run(st.body)
                elif tv is False: s.run(st.orelse)
                else:
                    s.ev(st.test) if not isinstance(st.test,(ast.Attribute,)) else None
                    a=Interp(s.env,s.name); a.run(st.body); b=Interp(s.env,s.name); b.run(st.orelse)
                    s.fails+=a.fails+b.fails
                    env={}
                    for k in set(a.env)|set(b.env):
                        if k in a.env and k in b.env:
                            x,y=a.env[k],b.env[k]
                            env[k]= join(x,y) if isinstance(x,V) and isinstance(y,V) else x
                        else: env[k]=a.env.get(k,b.env.get(k))
                    s.env=env
            elif isinstance(st,ast.Expr): 
                try: s.ev(st.value)
                except Fail: pass
            else: raise Fail('stmt '+type(st).__name__)
    def fold(s,t):
        # constant-fold tests over params only
        names={n.id for n in ast.walk(t) if isinstance(n,ast.Name)}
        if any(isinstance(n,(ast.Subscript,ast.Attribute,ast.Call)) for n in ast.walk(t)): 
            # allow 'c_and and <runtime>' -> False if c_and==0
            if isinstance(t,ast.BoolOp) and isinstance(t.op,ast.And) and isinstance(t.values[0],ast.Name):
                v=s.env.get(t.values[0].id)
                if isinstance(v,V) and v.lo==v.hi==0: return False
            return None
        vals={}
        for n in names:
            v=s.env.get(n)
            if not (isinstance(v,V) and v.lo==v.hi): return None
            vals[n]=v.lo
        return bool(eval(compile(ast.Expression(t),'','eval'),{},vals))

src=open(R+'skoolkit/simulator.py').read(); t=ast.parse(src)
cls=[n for n in t.body if isinstance(n,ast.ClassDef)][0]
fac={m.name:m for m in cls.body if isinstance(m,ast.FunctionDef)}
co=fac['create_opcodes']
LOOK={'ADC':('table',PAIR,3),'SBC':('table',PAIR,3),'ADC_A_A':('table',PAIR,2),'SBC_A_A':('table',PAIR,2),'BIT':('table',V(0,255),3),'CCF':('table',BYTE,2),'SCF':('table',BYTE,2),
 'NEG':('table',PAIR,1),'PARITY':('table',V(0,4,4),1),'SZ53P':('table',V(0,0xEC,0xEC),1)}
for n in ('ADD','AND','CP','CPL','DAA','OR','SUB','XOR','RLA','RLCA','RRA','RRCA'): LOOK[n]=('table',PAIR,2)
for n in ('DEC','INC','RL','RR'): LOOK[n]=('table',PAIR,2)
for n in ('RLC','RRC','SLA','SLL','SRA','SRL'): LOOK[n]=('table',PAIR,1)
G={'R1':('table',BYTE,1),'R2':('table',BYTE,1),'OFFSETS':('table',V(-128,127),1),'JR_OFFSETS':('table',V(-126,129),1)}
slots=0; failed=collections.Counter(); errs=collections.Counter(); examples={}
for n in co.body:
    if not(isinstance(n,ast.Assign) and isinstance(n.value,ast.List)): continue
    for i,e in enumerate(n.value.elts):
        h=e.func.attr
        if h in ('prefix','prefix2'): continue
        f=fac[h]; params=[a.arg for a in f.args.args][1:]
        defaults=f.args.defaults
        env=dict(G)
        for p,a in zip(params,e.args):
            if isinstance(a,ast.Name):
                if a.id in ('r','m'): env[p]=('obj',)
                elif a.id in LOOK: env[p]=LOOK[a.id]
                elif a.id in ('R1','R2'): env[p]=G[a.id]
                else: env[p]=const(consts[a.id])
            elif isinstance(a,ast.Constant): env[p]=const(a.value)
            elif isinstance(a,ast.UnaryOp): env[p]=const(-a.operand.value)
        for p,d in zip(params[len(params)-len(defaults):],defaults):
            if p not in env: env[p]=const(ast.literal_eval(d))
        inner=[x for x in f.body if isinstance(x,ast.FunctionDef)][0]
        it=Interp(env,h)
        try:
            it.run(inner.body)
        except Fail as ex:
            errs[(h,str(ex))]+=1; continue
        except Exception as ex:
            errs[(h,repr(ex))]+=1; continue
        slots+=1
        for fl in it.fails:
            key=(h,)+tuple(str(x) for x in fl[:1])+ (fl[-2] if isinstance(fl[-2],str) else str(fl[-2]),)
            failed[key]+=1; examples[key]=fl
print('slots analysed',slots)
print('interp errors',dict(errs))
print('failed obligations:')
for k,v in failed.items(): print(' ',v,k,examples[k][-1])
