import ast, copy, collections
R='/repo/'
t=ast.parse(open(R+'skoolkit/pngwriter.py').read())
cls=[n for n in t.body if isinstance(n,ast.ClassDef)][0]
m={f.name:f for f in cls.body if isinstance(f,ast.FunctionDef)}
class Sub(ast.NodeTransformer):
    def __init__(s,env): s.env=env
    def visit_Name(s,n):
        if isinstance(n.ctx,ast.Load) and n.id in s.env: return copy.deepcopy(s.env[n.id])
        return n
def effects(f):
    env={}; out=[]
    def run(body,conds):
        for st in body:
            if isinstance(st,ast.Assign) and len(st.targets)==1 and isinstance(st.targets[0],ast.Name):
                env[st.targets[0].id]=Sub(env).visit(copy.deepcopy(st.value))
            elif isinstance(st,ast.Assign) and isinstance(st.targets[0],ast.Tuple):
                for tg in st.targets[0].elts: env.pop(tg.id,None)
            elif isinstance(st,ast.Expr) and isinstance(st.value,ast.Call):
                c=Sub(env).visit(copy.deepcopy(st.value))
                out.append((tuple(conds),ast.unparse(c)))
            elif isinstance(st,ast.If):
                run(st.body,conds+[ast.unparse(st.test)]); run(st.orelse,conds+['not '+ast.unparse(st.test)])
    run(f.body,[])
    return out
import re
for name in sorted(m):
    if not name.startswith('_scan_udg'): continue
    eff=effects(m[name])
    groups=collections.defaultdict(list)
    for conds,e in eff:
        mm=re.match(r'scanlines\[(\d)\]\.extend\((.*)\)$',e)
        k=int(mm.group(1)); body=mm.group(2)
        # abstract row index
        norm=re.sub(r'\[%d\]'%k,'[K]',body); norm=re.sub(r', %d,'%k,', K,',norm)
        groups[k].append((conds,norm))
    ok=all(groups[k]==groups[0] for k in range(8))
    print(name, 'rows',sorted(groups), 'regular' if ok else 'IRREGULAR', groups[0][:2])
# capability
for name in sorted(m):
    if name.startswith('_build_image_data_bd'):
        f=m[name]
        attrs={ast.unparse(n) for n in ast.walk(f) if isinstance(n,ast.Attribute) and isinstance(n.value,ast.Name) and n.value.id=='frame'}
        uses_mask=any(isinstance(n,ast.Name) and n.id=='mask' and isinstance(n.ctx,ast.Load) for n in ast.walk(f))
        print(name, sorted(attrs), 'mask' if uses_mask else 'no-mask', [a.arg for a in f.args.args], f.args.vararg.arg if f.args.vararg else None)
