# Prototype (throw-away): value-term agreement Python CMIOSimulator closures vs C (-DCONTENTION) handlers,
# by slot instantiation + local value numbering + normal forms.  Not framework code.
import ast, json, sys, collections, itertools
import os
R=os.environ.get('PROBE_REPO','/repo/')
# ---------------------------------------------------------------- terms
def C(n): return ('c',int(n))
def isc(t): return t[0]=='c'
COMM={'+','*','&','|','^'}
def mk(op,*a):
    a=list(a)
    # constant folding
    if all(isc(x) for x in a) and op in ('+','-','*','//','%','&','|','^','<<','>>','==','!=','<','>','<=','>='):
        x=a[0][1]; y=a[1][1]
        try:
            v={'+':x+y,'-':x-y,'*':x*y,'//':x//y if y else 0,'%':x%y if y else 0,'&':x&y,'|':x|y,'^':x^y,'<<':x<<y,'>>':x>>y,
               '==':int(x==y),'!=':int(x!=y),'<':int(x<y),'>':int(x>y),'<=':int(x<=y),'>=':int(x>=y)}[op]
            return C(v)
        except Exception: pass
    # canonical masks
    if op=='%' and isc(a[1]) and a[1][1]>0 and a[1][1]&(a[1][1]-1)==0: return mk('&',a[0],C(a[1][1]-1))
    if op=='//' and isc(a[1]) and a[1][1]>0 and a[1][1]&(a[1][1]-1)==0: return mk('>>',a[0],C(a[1][1].bit_length()-1))
    if op=='-' and isc(a[1]): return mk('+',a[0],C(-a[1][1]))
    if op=='-': return mk('+',a[0],mk('*',a[1],C(-1)))
    if op=='*' and a[0][0] in ('==','!=','<','>','<=','>=','bool','not') and isc(a[1]): return ('sel',a[0],a[1])
    if op=='*' and a[1][0] in ('==','!=','<','>','<=','>=','bool','not') and isc(a[0]): return ('sel',a[1],a[0])
    if op in COMM:
        flat=[]
        for x in a:
            if x[0]==op: flat.extend(x[1:])
            else: flat.append(x)
        # fold constants
        cs=[x for x in flat if isc(x)]; rest=[x for x in flat if not isc(x)]
        if cs:
            v=cs[0][1]
            for x in cs[1:]:
                v={'+':v+x[1],'*':v*x[1],'&':v&x[1],'|':v|x[1],'^':v^x[1]}[op]
            ident={'+':0,'*':1,'&':None,'|':0,'^':0}[op]
            if not (ident is not None and v==ident): rest.append(C(v))
        if op=='&' and cs and (v & (v+1))==0 and len(rest)==2:
            inner=[x for x in rest if not isc(x)][0]
            def absorb(t):
                if t[0]=='&' and C(v) in t[1:] and len(t)==3:
                    return [y for y in t[1:] if y!=C(v)][0]
                if t[0]=='+':
                    return mk('+',*[absorb(y) for y in t[1:]])
                return t
            if inner[0]=='+':
                rest=[absorb(inner),C(v)]
        if op=='&' and cs and v==0: return C(0)
        if op=='*' and cs and v==0: return C(0)
        if not rest: return C({'+':0,'*':1,'|':0,'^':0,'&':-1}[op])
        if len(rest)==1: return rest[0]
        return (op,)+tuple(sorted(rest,key=repr))
    return (op,)+tuple(a)
def m16(x): return mk('&',x,C(65535))
# ---------------------------------------------------------------- python side
simutils=ast.parse(open(R+'skoolkit/simutils.py').read())
RC={n.targets[0].id:n.value.value for n in simutils.body if isinstance(n,ast.Assign) and isinstance(n.value,ast.Constant) and isinstance(n.value.value,int)}
class Skip(Exception): pass
class Path:
    def __init__(s,env,regs,mw,guards,epoch): s.env,s.regs,s.mw,s.guards,s.epoch=env,regs,mw,guards,epoch
    def fork(s): return Path(dict(s.env),dict(s.regs),list(s.mw),list(s.guards),s.epoch)
def rd_reg(p,k):
    return p.regs.get(k,('reg',k))
class Py:
    def __init__(s,params): s.params=params
    def ev(s,p,e):
        if isinstance(e,ast.Constant): return C(int(e.value))
        if isinstance(e,ast.Name):
            if e.id in p.env: return p.env[e.id]
            if e.id in s.params: return s.params[e.id]
            if e.id in ('R1','R2','OFFSETS','JR_OFFSETS'): return ('T',e.id)
            if e.id in ('t0','t1','frame_duration'): return ('sym',e.id)
            raise Skip('name '+e.id)
        if isinstance(e,ast.BinOp):
            op={ast.Add:'+',ast.Sub:'-',ast.Mult:'*',ast.Mod:'%',ast.FloorDiv:'//',ast.BitAnd:'&',ast.BitOr:'|',ast.BitXor:'^'}[type(e.op)]
            return mk(op,s.ev(p,e.left),s.ev(p,e.right))
        if isinstance(e,ast.Compare):
            terms=[s.ev(p,x) for x in [e.left]+e.comparators]
            ops=[{ast.Gt:'>',ast.Lt:'<',ast.Eq:'==',ast.NotEq:'!=',ast.GtE:'>=',ast.LtE:'<='}[type(o)] for o in e.ops]
            cs=[mk(o,a,b) for o,a,b in zip(ops,terms,terms[1:])]
            return cs[0] if len(cs)==1 else ('and',)+tuple(cs)
        if isinstance(e,ast.BoolOp):
            vs=[s.ev(p,x) for x in e.values]
            return ('and' if isinstance(e.op,ast.And) else 'or',)+tuple(vs)
        if isinstance(e,ast.Subscript):
            chain=[]; b=e
            while isinstance(b,ast.Subscript): chain.append(b.slice); b=b.value
            chain.reverse()
            if isinstance(b,ast.Name) and b.id=='registers':
                if isinstance(chain[0],ast.Slice):
                    lo=chain[0].lower.value if chain[0].lower else 0; hi=chain[0].upper.value
                    return ('tuple',)+tuple(rd_reg(p,k) for k in range(lo,hi))
                k=s.ev(p,chain[0])
                if not isc(k): raise Skip('nonconst reg')
                return rd_reg(p,k[1])
            if isinstance(b,ast.Name) and b.id=='memory':
                return ('mem',s.ev(p,chain[0]),p.epoch)
            base=s.ev(p,b)
            for c in chain:
                i=s.ev(p,c)
                if base[0]=='tuple' and isc(i): base=base[1+i[1]]
                else: base=('idx',base,i)
            return base
        if isinstance(e,ast.Tuple): return ('tuple',)+tuple(s.ev(p,x) for x in e.elts)
        if isinstance(e,ast.Attribute): return ('sym',ast.unparse(e).replace('self.',''))
        if isinstance(e,ast.Call):
            f=ast.unparse(e.func)
            if f in ('contend',): return ('delay',)
            raise Skip('call '+f)
        if isinstance(e,ast.UnaryOp) and isinstance(e.op,ast.USub): return mk('*',s.ev(p,e.operand),C(-1))
        raise Skip('expr '+type(e).__name__)
    def assign(s,p,tg,v):
        if isinstance(tg,ast.Name):
            if tg.id in ('delay','tm'): v=('sym',tg.id)
            p.env[tg.id]=v; return
        if isinstance(tg,ast.Tuple):
            for i,t in enumerate(tg.elts):
                s.assign(p,t, v[1+i] if v[0]=='tuple' else ('idx',v,C(i)))
            return
        if isinstance(tg,ast.Subscript) and isinstance(tg.value,ast.Name):
            if tg.value.id=='registers':
                if isinstance(tg.slice,ast.Slice):
                    lo=tg.slice.lower.value if tg.slice.lower else 0; hi=tg.slice.upper.value
                    for i,k in enumerate(range(lo,hi)): p.regs[k]= v[1+i] if v[0]=='tuple' else ('idx',v,C(i))
                    return
                k=s.ev(p,tg.slice)
                if not isc(k): raise Skip('nonconst reg store')
                p.regs[k[1]]=v; return
            if tg.value.id=='memory':
                p.mw.append((s.ev(p,tg.slice),v)); p.epoch+=1; return
        raise Skip('target '+ast.unparse(tg))
    def run(s,paths,body):
        for st in body:
            new=[]
            for p in paths:
                if isinstance(st,ast.Assign):
                    v=s.ev(p,st.value)
                    for tg in st.targets: s.assign(p,tg,v)
                    new.append(p)
                elif isinstance(st,ast.AugAssign):
                    op={ast.Add:'+',ast.Sub:'-',ast.BitAnd:'&',ast.BitOr:'|',ast.Mod:'%'}[type(st.op)]
                    v=mk(op,s.ev(p,st.target),s.ev(p,st.value)); s.assign(p,st.target,v); new.append(p)
                elif isinstance(st,ast.If):
                    t=s.ev(p,st.test)
                    t=simp_bool(t)
                    if isc(t):
                        new.extend(s.run([p], st.body if t[1] else st.orelse))
                    else:
                        a=p.fork(); a.guards.append(t); b=p.fork(); b.guards.append(('not',t))
                        new.extend(s.run([a],st.body)); new.extend(s.run([b],st.orelse))
                elif isinstance(st,ast.Expr):
                    new.append(p)   # tracer/contend calls ignored in this probe
                else: raise Skip('stmt '+type(st).__name__)
            paths=new
        return paths
def simp_bool(t):
    if t[0]=='and':
        vs=[simp_bool(x) for x in t[1:]]
        if any(isc(v) and v[1]==0 for v in vs): return C(0)
        vs=[v for v in vs if not isc(v)]
        if not vs: return C(1)
        return vs[0] if len(vs)==1 else ('and',)+tuple(vs)
    return t
# ---------------------------------------------------------------- C side
exec(open('p5.py').read().split("def src(n)")[0])   # loads d, decls, funcs
CCONST={'A':0,'F':1,'B':2,'C':3,'D':4,'E':5,'H':6,'L':7,'SP':12,'I':14,'R':15,'xA':16,'xF':17,'xB':18,'xC':19,'xD':20,'xE':21,'xH':22,'xL':23,'PC':24,'T':25,'IFF':26,'IM':27,'HALT':28,'MEMPTR':29}
class CX:
    def __init__(s,args,lookup): s.args=args; s.lookup=lookup
    def ev(s,p,n):
        k=n.get('kind'); inner=n.get('inner',[])
        if k in ('ImplicitCastExpr','ParenExpr','CStyleCastExpr','ConstantExpr'): return s.ev(p,inner[0])
        if k=='IntegerLiteral': return C(n['value'])
        if k=='DeclRefExpr':
            nm=n['referencedDecl']['name']
            if nm in p.env: return p.env[nm]
            if nm in CCONST: return C(CCONST[nm])
            if nm=='lookup': return s.lookup
            if nm=='args': return ('sym','args')
            return ('T',nm)
        if k=='ArraySubscriptExpr':
            base=inner[0]; idx=inner[1]
            bs=s.ev(p,base)
            if bs==('sym','reg'):
                kk=s.ev(p,idx)
                if not isc(kk): raise Skip('nonconst reg')
                return rd_reg(p,kk[1])
            if bs==('sym','args'):
                kk=s.ev(p,idx); return C(s.args[kk[1]])
            if bs==('sym','mem'): return ('mem',s.ev(p,idx),p.epoch)
            i=s.ev(p,idx)
            if bs[0]=='tuple' and isc(i): return bs[1+i[1]]
            return ('idx',bs,i)
        if k=='MemberExpr':
            nm=n['name']
            if nm=='registers': return ('sym','reg')
            if nm=='memory': return ('sym','mem')
            return ('sym',nm)
        if k=='BinaryOperator':
            op=n['opcode']
            a=s.ev(p,inner[0]); b=s.ev(p,inner[1])
            if op=='&&': return ('and',a,b)
            if op=='||': return ('or',a,b)
            if op=='/': op='//'
            return mk(op,a,b)
        if k=='UnaryOperator':
            if n['opcode']=='-': return mk('*',s.ev(p,inner[0]),C(-1))
            if n['opcode']=='!': return ('not',s.ev(p,inner[0]))
            if n['opcode'] in('&','*'): return s.ev(p,inner[0])
            raise Skip('unary '+n['opcode'])
        if k=='ConditionalOperator':
            c=s.ev(p,inner[0])
            if c==('sym','mem'): return s.ev(p,inner[1])   # PEEK
            a=s.ev(p,inner[1]); b=s.ev(p,inner[2])
            if isc(c): return a if c[1] else b
            if isc(a) and isc(b) and b[1]==0: return ('sel',c,a)
            return ('ite',c,a,b)
        if k=='CallExpr': raise Skip('call')
        raise Skip('cexpr '+str(k))
    def store(s,p,lhs,v):
        k=lhs.get('kind'); inner=lhs.get('inner',[])
        if k in('ParenExpr','ImplicitCastExpr'): return s.store(p,inner[0],v)
        if k=='DeclRefExpr':
            nm=lhs['referencedDecl']['name']
            if nm in('delay','t'): v=('sym','delay' if nm=='delay' else 'tm')
            p.env[nm]=v; return
        if k=='ArraySubscriptExpr':
            bs=s.ev(p,inner[0])
            if bs==('sym','reg'):
                kk=s.ev(p,inner[1])
                if not isc(kk): raise Skip('nonconst-cregstore '+repr(kk)[:60])
                p.regs[kk[1]]=v; return
            if bs==('sym','mem'):
                p.mw.append((s.ev(p,inner[1]),v)); p.epoch+=1; return
            if bs==('sym','args'): return
        raise Skip('cstore')
    def run(s,paths,n):
        k=n.get('kind')
        if k=='CompoundStmt':
            for c in n.get('inner',[]): paths=s.run(paths,c)
            return paths
        out=[]
        for p in paths:
            if k=='DeclStmt':
                for v in n.get('inner',[]):
                    if v.get('kind')=='VarDecl':
                        nm=v['name']
                        if nm=='cpattern': continue
                        if v.get('inner'):
                            val=s.ev(p,v['inner'][-1])
                            if nm=='delay': val=('sym','delay')
                            if nm=='t': val=('sym','tm')
                            p.env[nm]=val
                out.append(p)
            elif k in('BinaryOperator',) and n.get('opcode')=='=':
                s.store(p,n['inner'][0],s.ev(p,n['inner'][1])); out.append(p)
            elif k=='CompoundAssignOperator':
                op=n['opcode'][:-1]
                cur=s.ev(p,n['inner'][0]); v=mk(op,cur,s.ev(p,n['inner'][1])); s.store(p,n['inner'][0],v); out.append(p)
            elif k=='UnaryOperator' and n['opcode'] in('++','--'): out.append(p)
            elif k=='IfStmt':
                inner=n['inner']; t=simp_bool(s.ev(p,inner[0]))
                if t==('sym','mem'):       # POKE: take the mem branch only
                    out.extend(s.run([p],inner[1])); continue
                if isc(t):
                    if t[1]: out.extend(s.run([p],inner[1]))
                    elif len(inner)>2: out.extend(s.run([p],inner[2]))
                    else: out.append(p)
                else:
                    a=p.fork(); a.guards.append(t); b=p.fork(); b.guards.append(('not',t))
                    out.extend(s.run([a],inner[1]))
                    out.extend(s.run([b],inner[2]) if len(inner)>2 else [b])
            elif k=='CallExpr': out.append(p)    # contend call ignored here
            elif k=='ReturnStmt': out.append(p)
            elif k=='NullStmt': out.append(p)
            else: raise Skip('cstmt '+str(k))
        return out
# ---------------------------------------------------------------- post-normalisation shared by both sides
def post(t):
    if not isinstance(t,tuple): return t
    t=tuple(post(x) if isinstance(x,tuple) else x for x in t)
    # R1[x]/R2[x] -> rinc
    if t[0]=='idx' and t[1]==('T','R1'): return ('rinc',t[2],1)
    if t[0]=='idx' and t[1]==('T','R2'): return ('rinc',t[2],2)
    # C: (x & 128) + ((x + n) & 127)
    if t[0]=='+' and len(t)==3:
        for a,b in ((t[1],t[2]),(t[2],t[1])):
            if a[0]=='&' and C(128) in a[1:] and b[0]=='&' and C(127) in b[1:]:
                x=[y for y in a[1:] if y!=C(128)][0]; inner=[y for y in b[1:] if y!=C(127)][0]
                if inner[0]=='+' and x in inner[1:]:
                    rest=[y for y in inner[1:] if y!=x]
                    if len(rest)==1 and isc(rest[0]): return ('rinc',x,rest[0][1])
    if t[0]=='idx' and t[1]==('T','OFFSETS'): return ('s8',t[2])
    if t[0]=='idx' and t[1]==('T','JR_OFFSETS'): return mk('+',('s8',t[2]),C(2))
    # C: (d < 128 ? d : d - 256)
    if t[0]=='ite' and t[1][0]=='<' and t[1][2]==C(128) and t[2]==t[1][1] and t[3]==mk('+',t[1][1],C(-256)): return ('s8',t[1][1])
    if t[0]=='ite' and t[1][0]=='<' and t[1][2]==C(128):
        d=t[1][1]
        # jr: d < 128 ? d + 2 : d - 254
        if t[2]==mk('+',d,C(2)) and t[3]==mk('+',d,C(-254)): return mk('+',('s8',d),C(2))
    if t[0] in COMM: return mk(t[0],*t[1:])
    return t
def merge(items):
    # items: set of (guards frozenset, effects); merge pairs differing in one guard polarity with same effects
    changed=True
    items=set(items)
    while changed:
        changed=False
        for (g,e) in list(items):
            for x in g:
                nx = x[len("('not', "):-1] if x.startswith("('not', ") else "('not', "+x+")"
                g2=(g-{x})|{nx}
                if (g2,e) in items and (g,e) in items:
                    items.discard((g,e)); items.discard((g2,e)); items.add((g-{x},e)); changed=True; break
            if changed: break
    return items
def canon(paths):
    res=set()
    for g,r,m in canon0(paths):
        contradictory=any(("('not', "+x+")") in g for x in g)
        if contradictory: continue
        # constant guards
        g=frozenset(x for x in g if x not in ("('c', 1)","('not', ('c', 0))"))
        if "('c', 0)" in g or "('not', ('c', 1))" in g: continue
        res.add((g,(r,m)))
    return merge(res)
def canon0(paths):
    out=set()
    for p in paths:
        regs={k:post(v) for k,v in p.regs.items()}
        regs={k:v for k,v in regs.items() if v!=('reg',k)}
        g=frozenset(repr(post(x)) for x in p.guards)
        out.add((g, tuple(sorted((k,repr(v)) for k,v in regs.items())), tuple((repr(post(a)),repr(post(v))) for a,v in p.mw)))
    return out
# ---------------------------------------------------------------- drive: one instantiation per distinct (handler,args)
t=ast.parse(open(R+'skoolkit/simulator.py').read()); simcls=[n for n in t.body if isinstance(n,ast.ClassDef)][0]
simfac={f.name:f for f in simcls.body if isinstance(f,ast.FunctionDef)}
tc=ast.parse(open(R+'skoolkit/cmiosimulator.py').read()); cmcls=[n for n in tc.body if isinstance(n,ast.ClassDef)][0]
cmfac={f.name:f for f in cmcls.body if isinstance(f,ast.FunctionDef)}
# C tables from JSON
ctabs={}
for x in decls:
    if x['kind']=='VarDecl' and x.get('name') in ('opcodes','after_CB','after_ED','after_DD','after_FD','after_DDCB','after_FDCB'):
        il=[c for c in x['inner'] if c['kind']=='InitListExpr'][0]
        rows=[]
        def lit(n):
            k=n['kind']
            if k in('ImplicitCastExpr','ParenExpr','CStyleCastExpr'): return lit(n['inner'][0])
            if k=='IntegerLiteral': return int(n['value'])
            if k=='UnaryOperator' and n['opcode']=='-': return -lit(n['inner'][0])
            if k=='DeclRefExpr': return n['referencedDecl']['name']
            if k=='ImplicitValueInitExpr': return 0
            if k=='UnaryOperator' and n['opcode']=='&': return lit(n['inner'][0])
            return None
        for e in il['inner']:
            f,l,a=e['inner']
            if 'array_filler' in a: args=[lit(z) for z in a['array_filler'][1:]]
            else: args=[lit(z) for z in a.get('inner',[])]
            rows.append((lit(f),lit(l),args))
        ctabs[x['name']]=rows
print({k:len(v) for k,v in ctabs.items()})
co=simfac['create_opcodes']
pyslots={}
for n in co.body:
    if isinstance(n,ast.Assign) and isinstance(n.value,ast.List):
        pyslots[n.targets[0].attr]=n.value.elts
results=collections.Counter(); detail={}
seen=set()
for tab,elts in pyslots.items():
    for i,e in enumerate(elts):
        h=e.func.attr
        if h.startswith('prefix'): continue
        ch,cl,cargs=ctabs[tab][i]
        key=(h,tuple(ast.unparse(a) for a in e.args))
        if key in seen: continue
        seen.add(key)
        f=cmfac[h]; ps=[a.arg for a in f.args.args][1:]
        params={}
        for pn,a in zip(ps,e.args):
            if isinstance(a,ast.Name):
                if a.id in('r','m'): continue
                if a.id in RC: params[pn]=C(RC[a.id])
                else: params[pn]=('T',a.id)
            elif isinstance(a,ast.Constant): params[pn]=C(a.value)
            elif isinstance(a,ast.UnaryOp): params[pn]=C(-a.operand.value)
        for pn,dv in zip(ps[len(ps)-len(f.args.defaults):],f.args.defaults): params.setdefault(pn,C(ast.literal_eval(dv)))
        inner=[x for x in f.body if isinstance(x,ast.FunctionDef)][0]
        try:
            pp=Py(params).run([Path({}, {}, [], [], 0)], inner.body)
            cfn=funcs[h]
            lookup=('T',cl) if cl else ('T','?')
            cargs=(cargs+[0]*7)[:7]
            cp=CX(cargs,lookup).run([Path({}, {}, [], [], 0)], [c for c in cfn['inner'] if c['kind']=='CompoundStmt'][0])
        except Skip as ex:
            results['skip:'+str(ex).split(' ')[0]]+=1; detail.setdefault('skip',[]).append((h,str(ex))); continue
        a=canon(pp); b=canon(cp)
        if a==b: results['equal']+=1
        else:
            results['differ']+=1; detail.setdefault('differ',[]).append((tab,hex(i),h,a,b))
print(dict(results))
skips=collections.Counter((h,m) for h,m in detail.get('skip',[]))
print('skips:',dict(skips))
byh=collections.Counter(x[2] for x in detail.get('differ',[]))
print('differ by handler:',dict(byh))
if len(sys.argv)>1:
    for tab,i,h,a,b in detail.get('differ',[]):
        if h==sys.argv[1]:
            print('==',tab,i,h)
            for x in sorted(a-b,key=repr): print('  PY',x)
            for x in sorted(b-a,key=repr): print('  C ',x)
            break
