import ast, json, collections
R='/repo/'
t=ast.parse(open(R+'skoolkit/simulator.py').read())
cls=[n for n in t.body if isinstance(n,ast.ClassDef)][0]
fac={f.name:f for f in cls.body if isinstance(f,ast.FunctionDef)}
def fixed_r(f):
    inner=[x for x in f.body if isinstance(x,ast.FunctionDef)]
    if not inner: return None
    vals=set()
    for n in ast.walk(inner[0]):
        if isinstance(n,ast.Assign) and ast.unparse(n.targets[0])=='registers[15]':
            v=n.value
            if isinstance(v,ast.Subscript) and isinstance(v.value,ast.Name): vals.add(v.value.id)
            else: vals.add('expr')
    return vals
co=fac['create_opcodes']
bad=[]; n=0
for a in co.body:
    if isinstance(a,ast.Assign) and isinstance(a.value,ast.List):
        tab=a.targets[0].attr
        for i,e in enumerate(a.value.elts):
            h=e.func.attr
            if h.startswith('prefix'): continue
            f=fac[h]; ps=[x.arg for x in f.args.args][1:]
            rinc=None
            if 'r_inc' in ps:
                rinc=e.args[ps.index('r_inc')].id
            else:
                v=fixed_r(f); rinc=next(iter(v)) if len(v)==1 else str(v)
            exp='R1' if tab=='opcodes' else 'R2'
            if tab in('after_DD','after_FD') and h=='nop': exp='R1'
            n+=1
            if rinc!=exp: bad.append((tab,hex(i),h,rinc,exp))
print(n,'slots; R/M1 mismatches:',len(bad)); print(bad[:20])
