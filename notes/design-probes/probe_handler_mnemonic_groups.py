import ast, json, re, collections
R='/repo/'
pytab=json.load(open('pytab.json'))  # written by probe_pyc_dispatch_tables.py
t=ast.parse(open(R+'skoolkit/traceutils.py').read())
tr={}
for n in t.body:
    if isinstance(n,ast.Assign) and isinstance(n.value,ast.Tuple) and n.targets[0].id.isupper() and len(n.value.elts)==256:
        tr[n.targets[0].id]=[(e.elts[0].id if isinstance(e.elts[0],ast.Name) else None, e.elts[1].value, e.elts[2].value) for e in n.value.elts]
m={'opcodes':'OPCODES','after_CB':'AFTER_CB','after_ED':'AFTER_ED','after_DD':'AFTER_DD','after_FD':'AFTER_FD','after_DDCB':'AFTER_DDCB','after_FDCB':'AFTER_FDCB'}
groups=collections.defaultdict(list)
for pn,tn in m.items():
    for i,(h,l,a) in enumerate(pytab[pn]):
        mn=tr[tn][i][1]
        mn=re.sub(r'\{p\}\{n:\{[bw]\}\}','N',mn)
        mn=re.sub(r'\{s\}\{p\}\{d:\{b\}\}','+d',mn)
        groups[h].append((pn,i,mn,l,a))
for h in sorted(groups):
    g=groups[h]
    # generalise mnemonic: replace register tokens
    shapes=collections.Counter()
    for pn,i,mn,l,a in g:
        op=mn.split(' ')[0] if mn else '<none>'
        shapes[(op,l,len(a))]+=1
    print(h, len(g), dict(list(shapes.items())[:14]))
