# probe: plain Simulator closures vs CMIOSimulator closures (value terms), modulo delay and MEMPTR
src=open('p15.py').read()
head=src.split("results=collections.Counter(); detail={}")[0]
exec(head)
def strip(paths):
    out=set()
    for g,(r,m) in paths:
        r=tuple((k,v.replace(", ('sym', 'delay')","")) for k,v in r if k!=29)
        g=frozenset(x for x in g if 'tm' not in x)
        out.add((g,(r,m)))
    return merge(out)
results=collections.Counter(); diffs=[]
seen=set()
for tab,elts in pyslots.items():
    for i,e in enumerate(elts):
        h=e.func.attr
        if h.startswith('prefix'): continue
        key=(h,tuple(ast.unparse(a) for a in e.args))
        if key in seen: continue
        seen.add(key)
        res=[]
        try:
            for fac in (simfac,cmfac):
                f=fac[h]; ps=[a.arg for a in f.args.args][1:]
                params={}
                for pn,a in zip(ps,e.args):
                    if isinstance(a,ast.Name):
                        if a.id in('r','m'): continue
                        params[pn]=C(RC[a.id]) if a.id in RC else ('T',a.id)
                    elif isinstance(a,ast.Constant): params[pn]=C(a.value)
                    elif isinstance(a,ast.UnaryOp): params[pn]=C(-a.operand.value)
                for pn,dv in zip(ps[len(ps)-len(f.args.defaults):],f.args.defaults): params.setdefault(pn,C(ast.literal_eval(dv)))
                inner=[x for x in f.body if isinstance(x,ast.FunctionDef)][0]
                res.append(strip(canon(Py(params).run([Path({}, {}, [], [], 0)], inner.body))))
        except Skip as ex:
            results['skip:'+str(ex)]+=1; continue
        if res[0]==res[1]: results['equal']+=1
        else: results['differ']+=1; diffs.append((tab,hex(i),h,res))
print(dict(results))
print(collections.Counter(d[2] for d in diffs))
for tab,i,h,res in diffs[:3]:
    print('==',tab,i,h)
    for x in sorted(res[0]-res[1],key=repr)[:2]: print('  PLAIN',str(x)[:700])
    for x in sorted(res[1]-res[0],key=repr)[:2]: print('  CMIO ',str(x)[:700])
