import json, collections, sys
d=json.load(open('astc.json'))
cur=None; decls=[]
for x in d['inner']:
    loc=x.get('loc',{})
    f=loc.get('file') or loc.get('expansionLoc',{}).get('file') or loc.get('spellingLoc',{}).get('file')
    if f: cur=f
    if cur and cur.endswith('csimulator.c'): decls.append(x)
funcs={x['name']:x for x in decls if x['kind']=='FunctionDecl' and any(c.get('kind')=='CompoundStmt' for c in x.get('inner',[]))}
print(len(decls),'decls',len(funcs),'funcs')
def src(n):
    # crude expression printer
    k=n.get('kind')
    inner=n.get('inner',[])
    if k in ('ImplicitCastExpr','ParenExpr','CStyleCastExpr','ConstantExpr'): return src(inner[0])
    if k=='IntegerLiteral': return n['value']
    if k=='DeclRefExpr': return n['referencedDecl']['name']
    if k=='ArraySubscriptExpr': return f'{src(inner[0])}[{src(inner[1])}]'
    if k=='MemberExpr': return f'{src(inner[0])}->{n["name"]}'
    if k=='BinaryOperator' or k=='CompoundAssignOperator': return f'({src(inner[0])} {n["opcode"]} {src(inner[1])})'
    if k=='UnaryOperator': return f'{n["opcode"]}{src(inner[0])}'
    if k=='ConditionalOperator': return f'({src(inner[0])} ? {src(inner[1])} : {src(inner[2])})'
    if k=='CallExpr': return f'{src(inner[0])}({", ".join(src(a) for a in inner[1:])})'
    return '<'+str(k)+'>'
def walk(n, conds, out):
    k=n.get('kind')
    if k=='IfStmt':
        inner=n['inner']; c=src(inner[0])
        walk(inner[1],conds+[c],out)
        if len(inner)>2: walk(inner[2],conds+['!'+c],out)
        return
    if k in ('BinaryOperator','CompoundAssignOperator') and n.get('opcode') in ('=','+=','-=','&=','|='):
        out.append((n['opcode'],src(n['inner'][0]),src(n['inner'][1]),tuple(conds)))
        return
    if k=='DeclStmt':
        for v in n.get('inner',[]):
            if v.get('kind')=='VarDecl' and v.get('inner'):
                init=v['inner'][-1]
                if init.get('kind')=='InitListExpr':
                    out.append(('init',v['name'],[src(e) for e in init['inner']],tuple(conds)))
                else:
                    out.append(('decl',v['name'],src(init),tuple(conds)))
        return
    if k=='CallExpr':
        out.append(('call',src(n),'',tuple(conds))); return
    for c in n.get('inner',[]): walk(c,conds,out)
for name in sys.argv[1:]:
    out=[]; walk([c for c in funcs[name]['inner'] if c['kind']=='CompoundStmt'][0],[],out)
    print('==',name)
    for o in out: print('  ',o)
