import ast, re, json, collections
R='/repo/'
# --- python dispatch tables
src=open(R+'skoolkit/simulator.py').read()
t=ast.parse(src)
cls=[n for n in t.body if isinstance(n,ast.ClassDef) and n.name=='Simulator'][0]
co=[n for n in cls.body if isinstance(n,ast.FunctionDef) and n.name=='create_opcodes'][0]
simutils=ast.parse(open(R+'skoolkit/simutils.py').read())
consts={}
for n in simutils.body:
    if isinstance(n,ast.Assign) and isinstance(n.value,ast.Constant) and isinstance(n.value.value,int):
        consts[n.targets[0].id]=n.value.value
LOOKUPS=set()
for n in ast.walk(co):
    if isinstance(n,ast.ImportFrom): LOOKUPS={a.name for a in n.names}
pytab={}
for n in co.body:
    if isinstance(n,ast.Assign) and isinstance(n.value,ast.List):
        name=n.targets[0].attr
        rows=[]
        for e in n.value.elts:
            h=e.func.attr
            args=[]
            lookup=None
            for a in e.args:
                if isinstance(a,ast.Name):
                    if a.id in ('r','m'): continue
                    if a.id in LOOKUPS: lookup=a.id; continue
                    if a.id=='R1': args.append(1); continue
                    if a.id=='R2': args.append(2); continue
                    args.append(consts[a.id])
                elif isinstance(a,ast.Constant): args.append(a.value)
                elif isinstance(a,ast.UnaryOp): args.append(-a.operand.value)
                elif isinstance(a,ast.Attribute): args.append('@'+a.attr)
                else: args.append(ast.unparse(a))
            rows.append((h,lookup,args))
        pytab[name]=rows
# --- C tables (probe: regex)
csrc=open(R+'c/csimulator.c').read()
ctab={}
for m in re.finditer(r'static OpcodeFunction (\w+)\[256\] = \{(.*?)\n\};', csrc, re.S):
    rows=[]
    for line in m.group(2).split('\n'):
        mm=re.match(r'\s*\{(\w+), (\w+), \{([^}]*)\}\}', line)
        if mm:
            h,l,a=mm.groups()
            rows.append((None if h=='NULL' else h, None if l=='NULL' else l, [int(x) for x in a.split(',')]))
    ctab[m.group(1)]=rows
print({k:len(v) for k,v in pytab.items()}, {k:len(v) for k,v in ctab.items()})
# compare
diff=collections.Counter(); ex={}
for tname in pytab:
    for i,(p,c) in enumerate(zip(pytab[tname],ctab[tname])):
        ph,pl,pa=p; ch,cl,ca=c
        if ph in ('prefix','prefix2'):
            if ch is not None: diff['prefix!=NULL']+=1
            continue
        ok = ph==ch and pl==cl and (pa==ca or (pa==[] and ca==[0]))
        if not ok:
            key=(ph,ch, 'lookup' if pl!=cl else '', 'args')
            diff[key]+=1; ex.setdefault(key,(tname,hex(i),p,c))
print(diff)
for k,v in ex.items(): print(k,v)
json.dump(pytab,open('pytab.json','w'))
