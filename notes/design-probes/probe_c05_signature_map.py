# probe: derive expected (handler, lookup, operand args) from traceutils mnemonics; compare with simulator.py table
import ast, re, json, collections
R='/repo/'
REG8={'A':0,'F':1,'B':2,'C':3,'D':4,'E':5,'H':6,'L':7,'IXh':8,'IXl':9,'IYh':10,'IYl':11,'I':14,'R':15}
PAIR={'BC':(2,3),'DE':(4,5),'HL':(6,7),'IX':(8,9),'IY':(10,11),'AF':(0,1)}
SP=12
CC={'NZ':(64,'clear'),'Z':(64,'set'),'NC':(1,'clear'),'C':(1,'set'),'PO':(4,'clear'),'PE':(4,'set'),'P':(128,'clear'),'M':(128,'set')}
# load python table with param names
t=ast.parse(open(R+'skoolkit/simulator.py').read())
cls=[n for n in t.body if isinstance(n,ast.ClassDef)][0]
fac={f.name:f for f in cls.body if isinstance(f,ast.FunctionDef)}
simutils=ast.parse(open(R+'skoolkit/simutils.py').read())
consts={n.targets[0].id:n.value.value for n in simutils.body if isinstance(n,ast.Assign) and isinstance(n.value,ast.Constant) and isinstance(n.value.value,int)}
co=fac['create_opcodes']
def slotargs(e):
    h=e.func.attr; f=fac[h]
    ps=[a.arg for a in f.args.args][1:]
    d={}
    for p,a in zip(ps,e.args):
        if isinstance(a,ast.Name): d[p]= a.id if a.id not in consts else consts[a.id]
        elif isinstance(a,ast.Constant): d[p]=a.value
        elif isinstance(a,ast.UnaryOp): d[p]=-a.operand.value
        else: d[p]=ast.unparse(a)
    for p,dv in zip(ps[len(ps)-len(f.args.defaults):],f.args.defaults):
        d.setdefault(p,ast.literal_eval(dv))
    for k in ('registers','memory','r_inc','timing','size'): d.pop(k,None)
    return h,d
pytab={}
for n in co.body:
    if isinstance(n,ast.Assign) and isinstance(n.value,ast.List):
        pytab[n.targets[0].attr]=[slotargs(e) for e in n.value.elts]
tt=ast.parse(open(R+'skoolkit/traceutils.py').read())
tr={n.targets[0].id:[e.elts[1].value for e in n.value.elts] for n in tt.body if isinstance(n,ast.Assign) and isinstance(n.value,ast.Tuple) and len(n.value.elts)==256}
def norm(m):
    m=re.sub(r'\{p\}\{n:\{[bw]\}\}','N',m); m=re.sub(r'\{s\}\{p\}\{d:\{b\}\}','+d',m); return m
ALU1={'ADD':'ADD','SUB':'SUB','AND':'AND','XOR':'XOR','OR':'OR','CP':'CP'}
def xy(op):  # '(IX+d)' -> (8,9)
    mm=re.match(r'\((I[XY])\+d\)$',op); return PAIR[mm.group(1)] if mm else None
def expect(m):
    """return (handler, dict) or None if no expectation encoded"""
    if m=='' : return None
    parts=m.split(' ',1); op=parts[0]; args=parts[1].split(',') if len(parts)>1 else []
    if op in ('ADD','ADC','SBC') and args[0]=='A': alu=op; src=args[1]
    elif op in ('SUB','AND','XOR','OR','CP'): alu=op; src=args[0]
    else: alu=None
    if alu:
        carry = alu in ('ADC','SBC')
        pre='afc' if carry else 'af'
        if src=='(HL)': return pre+'_hl',{pre:alu}
        if src=='N': return pre+'_n',{pre:alu}
        if xy(src): return pre+'_xy',{pre:alu,'xyh':xy(src)[0],'xyl':xy(src)[1]}
        if carry and src=='A': return 'fc_r',{'fc':alu+'_A_A','r':0}
        return pre+'_r',{pre:alu,'r':REG8[src]}
    if op in ('RLCA','RRCA','RLA','RRA','DAA','CPL'): return 'af_r',{'af':op,'r':1}
    if op in ('SCF','CCF'): return 'cf',{'cf':op}
    if op in ('INC','DEC') :
        a=args[0]
        if a in PAIR or a=='SP':
            rh,rl=PAIR.get(a,(13,12)) if a!='SP' else (13,12)
            return 'inc_dec_rr',{'inc':1 if op=='INC' else -1,'rh':rh,'rl':rl}
        if a=='(HL)': return 'fc_hl',{'fc':op}
        if xy(a): return 'fc_xy',{'fc':op,'xyh':xy(a)[0],'xyl':xy(a)[1],'dest':-1}
        return 'fc_r',{'fc':op,'r':REG8[a]}
    if op in ('RL','RR','RLC','RRC','SLA','SRA','SLL','SRL'):
        pre='fc' if op in ('RL','RR') else 'f'
        a=args[0]
        if a=='(HL)': return pre+'_hl',{pre:op}
        if xy(a):
            d={pre:op,'xyh':xy(a)[0],'xyl':xy(a)[1],'dest':REG8[args[1]] if len(args)>1 else -1}
            return pre+'_xy',d
        return pre+'_r',{pre:op,'r':REG8[a]}
    if op=='BIT':
        b=int(args[0]); a=args[1]
        if a=='(HL)': return 'bit_hl',{'bit':'BIT','b':b}
        if xy(a): return 'bit_xy',{'bit':'BIT','b':b,'xyh':xy(a)[0],'xyl':xy(a)[1]}
        return 'bit_r',{'bit':'BIT','b':b,'reg':REG8[a]}
    if op in ('RES','SET'):
        b=int(args[0]); a=args[1]; mask=(1<<b) if op=='SET' else 255-(1<<b); h=op.lower()
        if a=='(HL)': return h+'_hl',{'bit':mask}
        if xy(a): return h+'_xy',{'bit':mask,'xyh':xy(a)[0],'xyl':xy(a)[1],'dest':REG8[args[2]] if len(args)>2 else -1}
        return h+'_r',{'bit':mask,'reg':REG8[a]}
    if op in ('JP','JR','CALL','RET'):
        if op=='JP' and args and args[0] in ('(HL)','(IX)','(IY)'):
            rh,rl=PAIR[args[0][1:-1]]; return 'jp_rr',{'rh':rh,'rl':rl}
        cc=args[0] if args and args[0] in CC else None
        return op.lower(),{'cc':cc}
    if op=='DJNZ': return 'djnz',{}
    if op=='RST': return 'rst',{'addr':'N'}
    if op in ('PUSH','POP'):
        rh,rl=PAIR[args[0]]; return op.lower(),{'rh':rh,'rl':rl}
    if op in ('LDI','LDD','LDIR','LDDR'): return 'ldi',{'inc':1 if op[2]=='I' else -1,'repeat':int(op.endswith('R'))}
    if op in ('CPI','CPD','CPIR','CPDR'): return 'cpi',{'inc':1 if op[2]=='I' else -1,'repeat':int(op.endswith('R'))}
    if op in ('INI','IND','INIR','INDR'): return 'ini',{'inc':1 if op[2]=='I' else -1,'repeat':int(op.endswith('R')),'parity':'PARITY'}
    if op in ('OUTI','OUTD','OTIR','OTDR'): return 'outi',{'inc':1 if op in('OUTI','OTIR') else -1,'repeat':int(op.endswith('R')),'parity':'PARITY'}
    if op=='NEG': return 'neg',{'neg':'NEG'}
    if op in('RETN','RETI'): return 'reti',{}
    if op=='IM': return 'im',{'mode':int(args[0])}
    if op=='RLD': return 'rld',{'sz53p':'SZ53P'}
    if op=='RRD': return 'rrd',{'sz53p':'SZ53P'}
    if op in('DI','EI'): return 'di_ei',{'iff':int(op=='EI')}
    if op=='HALT': return 'halt',{}
    if op=='NOP': return 'nop',{}
    if op=='EXX': return 'exx',{}
    if op=='EX':
        if args==['AF',"AF'"]: return 'ex_af',{}
        if args==['DE','HL']: return 'ex_de_hl',{}
        rh,rl=PAIR[args[1]]; return 'ex_sp',{'rh':rh,'rl':rl}
    if op=='IN':
        if args[1]=='(N)': return 'in_a',{}
        return 'in_c',{'reg':REG8[args[0]],'sz53p':'SZ53P'}
    if op=='OUT':
        if args[0]=='(N)': return 'out_a',{}
        return 'out_c',{'reg':REG8[args[1]] if args[1]!='0' else -1}
    if op in ('ADD','ADC','SBC'):  # 16-bit
        dst=args[0]; src=args[1]
        srcp=PAIR.get(src,(13,12)) if src!='SP' else (13,12)
        if op=='ADD': return 'add_rr',{'ah':PAIR[dst][0],'al':PAIR[dst][1],'rh':srcp[0],'rl':srcp[1]}
        return ('adc_hl' if op=='ADC' else 'sbc_hl'),{'rh':srcp[0],'rl':srcp[1]}
    if op=='LD':
        d,s=args
        def isr(x): return x in REG8
        if d=='SP' and s in PAIR: return 'ld_sp_rr',{'rh':PAIR[s][0],'rl':PAIR[s][1]}
        if (d in PAIR or d=='SP') and s=='N':
            p=PAIR.get(d,(13,12)) if d!='SP' else (13,12); return 'ld_rr_nn',{'rh':p[0],'rl':p[1]}
        if (d in PAIR or d=='SP') and s=='(N)':
            p=PAIR.get(d,(13,12)) if d!='SP' else (13,12); return 'ld_rr_mm',{'rh':p[0],'rl':p[1]}
        if d=='(N)' and (s in PAIR or s=='SP'):
            p=PAIR.get(s,(13,12)) if s!='SP' else (13,12); return 'ld_mm_rr',{'rh':p[0],'rl':p[1]}
        if d=='A' and s=='(N)': return 'ld_a_m',{}
        if d=='(N)' and s=='A': return 'ld_m_a',{}
        if d=='A' and s in ('I','R'): return 'ld_a_ir',{'r':REG8[s]}
        if d=='(HL)' and s=='N': return 'ld_hl_n',{}
        if xy(d) and s=='N': return 'ld_xy_n',{'xyh':xy(d)[0],'xyl':xy(d)[1]}
        if xy(d): return 'ld_xy_r',{'xyh':xy(d)[0],'xyl':xy(d)[1],'r':REG8[s]}
        if xy(s): return 'ld_r_xy',{'r':REG8[d],'xyh':xy(s)[0],'xyl':xy(s)[1]}
        if isr(d) and s=='N': return 'ld_r_n',{'r':REG8[d]}
        if isr(d) and s in ('(HL)','(BC)','(DE)'): p=PAIR[s[1:-1]]; return 'ld_r_rr',{'r':REG8[d],'rh':p[0],'rl':p[1]}
        if d in ('(HL)','(BC)','(DE)') and isr(s): p=PAIR[d[1:-1]]; return 'ld_rr_r',{'rh':p[0],'rl':p[1],'r':REG8[s]}
        if isr(d) and isr(s):
            if d==s: return 'nop',{}
            return 'ld_r_r',{'r1':REG8[d],'r2':REG8[s]}
    return None
names={'opcodes':'OPCODES','after_CB':'AFTER_CB','after_ED':'AFTER_ED','after_DD':'AFTER_DD','after_FD':'AFTER_FD','after_DDCB':'AFTER_DDCB','after_FDCB':'AFTER_FDCB'}
tot=0; noexp=collections.Counter(); bad=[]
for pn,tn in names.items():
    for i,(h,d) in enumerate(pytab[pn]):
        m=norm(tr[tn][i])
        if h in('prefix','prefix2'): continue
        ex=expect(m)
        if ex is None:
            noexp[(h,m)]+=1
            continue
        tot+=1
        eh,ed=ex
        if eh in ('jp','jr','call','ret'):
            ok = h==eh  # cc sense handled separately
            cc=ed['cc']
            if cc is None: ok = ok and d['c_and']==0
            else: ok = ok and d['c_and']==CC[cc][0]
        elif eh=='rst': ok = h=='rst'
        else: ok = (h==eh and all(d.get(k)==v for k,v in ed.items()))
        if not ok: bad.append((pn,hex(i),m,(h,d),ex))
print('slots with expectation',tot,'mismatches',len(bad))
for b in bad[:40]: print('  ',b)
print('no expectation:',sum(noexp.values()))
for k,v in sorted(noexp.items(),key=lambda x:-x[1])[:30]: print('  ',v,k)
