import ast, collections
R='/repo/'
for fn,cn in (('skoolkit/simulator.py','Simulator'),('skoolkit/cmiosimulator.py','CMIOSimulator')):
    t=ast.parse(open(R+fn).read())
    cls=[n for n in t.body if isinstance(n,ast.ClassDef) and n.name==cn][0]
    kinds=collections.Counter(); stm=collections.Counter(); calls=collections.Counter(); subs=collections.Counter(); tgt=collections.Counter()
    for m in cls.body:
        if not isinstance(m,ast.FunctionDef): continue
        inner=[n for n in m.body if isinstance(n,ast.FunctionDef)]
        for f in inner:
            for n in ast.walk(f):
                if isinstance(n,ast.stmt): stm[type(n).__name__]+=1
                if isinstance(n,ast.BinOp): kinds[type(n.op).__name__]+=1
                if isinstance(n,ast.BoolOp): kinds['Bool'+type(n.op).__name__]+=1
                if isinstance(n,ast.Compare): kinds['Cmp'+'/'.join(type(o).__name__ for o in n.ops)]+=1
                if isinstance(n,ast.UnaryOp): kinds['U'+type(n.op).__name__]+=1
                if isinstance(n,ast.IfExp): kinds['IfExp']+=1
                if isinstance(n,ast.Call): calls[ast.unparse(n.func)]+=1
                if isinstance(n,ast.Subscript) and isinstance(n.value,ast.Name): subs[n.value.id]+=1
                if isinstance(n,(ast.Assign,)):
                    for tg in n.targets: tgt[type(tg).__name__ + (':'+('slice' if isinstance(tg,ast.Subscript) and isinstance(tg.slice,ast.Slice) else '') )]+=1
    print(cn); print(' stmts',dict(stm)); print(' ops',dict(kinds)); print(' calls',dict(calls)); print(' subs',dict(subs)); print(' targets',dict(tgt))
